// Shared implementation of the `conn6` / `conn7` harness domains (included with `include!` by
// d_conn6.rs and d_conn7.rs, which define the protocol-specific parts: `cx` = connection module,
// `px` = protocol module, `NP`, `parse_dg`, `must_be_inert`, `new_accept`, `foreign`, …).
//
// A *world* is two real endpoints `a`, `b` sharing one clock plus the history of every datagram
// each of them handed to its `send` callback.  Request grammar: see lean/Tw/Drv/Conn6.lean.
// Correspondence output per endpoint op: `<result> s=<sent> e=<events> w=<warnings> nt=<needs_tick>`
// (observable behaviour only).  The property oracles (C01–C04) are evaluated here on the real
// endpoints, independently of the Lean model; the `libtw2_verif` hook (fingerprint / clone) is used
// only by the oracles.

use std::collections::VecDeque;
use std::io::Write;
use std::sync::atomic::{AtomicU64, Ordering};
use std::sync::Arc;

pub struct PChunk {
    pub vital: Option<(u16, bool)>,
    pub data: Vec<u8>,
}

/// A datagram parsed by the library's own reader (with a recording warning sink).
pub struct Parsed {
    /// canonical text (`err` for a read error)
    pub text: String,
    /// no read error and not a single warning, including the chunk iterator's
    pub clean: bool,
    /// chunk packets: header `num_chunks` and the chunks the iterator yields
    pub chunks: Option<(u8, Vec<PChunk>)>,
    /// connected packet: its token (None for connless / error / 0.6 without token)
    pub token: Option<[u8; 4]>,
    pub connected: bool,
    pub connless: bool,
    pub err: bool,
    /// Debug rendering of the reader's warnings (diagnostics only)
    pub warns: String,
}

fn tok_str(t: &[u8; 4]) -> String {
    format!("{:02x}{:02x}{:02x}{:02x}", t[0], t[1], t[2], t[3])
}

fn parse_tok(s: &str) -> Option<[u8; 4]> {
    if s.len() != 8 {
        return None;
    }
    let v = parse_hex(s)?;
    Some([v[0], v[1], v[2], v[3]])
}

fn chunk_str(c: &PChunk) -> String {
    match c.vital {
        None => format!("n.{}", to_hex(&c.data)),
        Some((s, false)) => format!("v{}.{}", s, to_hex(&c.data)),
        Some((s, true)) => format!("r{}.{}", s, to_hex(&c.data)),
    }
}

fn chunks_str(cs: &[PChunk]) -> String {
    if cs.is_empty() {
        "-".to_string()
    } else {
        cs.iter().map(chunk_str).collect::<Vec<_>>().join("/")
    }
}

/// The error of the harness callback: an armed send fault fired (`Callback::send` returned `Err`,
/// the datagram counts as not sent).
#[derive(Clone, Copy, Debug, PartialEq, Eq)]
pub struct SendFail;

struct Cb {
    now: u64,
    draws: VecDeque<[u8; 4]>,
    /// every datagram handed to `send`, in order (also those whose send failed)
    sent: Vec<Vec<u8>>,
    /// armed send faults: count-downs, `k` = the k-th next `send` fails
    faults: Vec<u32>,
    /// indices into `sent` of the datagrams whose send failed
    failed_at: Vec<usize>,
}

impl Cb {
    fn new(now: u64, draws: VecDeque<[u8; 4]>) -> Cb {
        Cb { now, draws, sent: vec![], faults: vec![], failed_at: vec![] }
    }
}

impl cx::Callback for Cb {
    type Error = SendFail;
    fn secure_random(&mut self, buffer: &mut [u8]) {
        if buffer.len() != 4 {
            panic!("secure_random: unexpected length");
        }
        let d = self.draws.pop_front().expect("secure_random: no draw supplied");
        buffer.copy_from_slice(&d);
    }
    fn send(&mut self, data: &[u8]) -> Result<(), SendFail> {
        self.sent.push(data.to_vec());
        let mut hit = false;
        for k in self.faults.iter_mut() {
            *k = k.saturating_sub(1);
            hit |= *k == 0;
        }
        self.faults.retain(|k| *k > 0);
        if hit {
            self.failed_at.push(self.sent.len() - 1);
            return Err(SendFail);
        }
        Ok(())
    }
    fn time(&mut self) -> Timestamp {
        Timestamp::from_usecs_since_epoch(self.now)
    }
}

fn parse_draws(args: &[&str]) -> VecDeque<[u8; 4]> {
    for a in args {
        if let Some(r) = a.strip_prefix("r=") {
            return r.split(',').filter_map(parse_tok).collect();
        }
    }
    VecDeque::new()
}

pub struct Dg {
    pub bytes: Vec<u8>,
    /// number of vital chunks submitted by a / b when this datagram was sent
    pub stamp_n: [u64; 2],
    /// number of the peer's vital chunks the sender had received when it sent this (what its ack says)
    pub stamp_d: u64,
    pub delivered: u32,
}

pub struct Ep {
    conn: cx::Connection,
    pub dead: bool,
    pub hist: Vec<Dg>,
    pub sub_vital: Vec<Vec<u8>>,
    pub del_vital: Vec<Vec<u8>>,
    pub sub_nonvital: Vec<Vec<u8>>,
    pending_nonvital: VecDeque<Vec<u8>>,
    pub ready: u32,
    acked_known: u64,
    pub sent_accept: bool,
    pub connector: bool,
    /// the token was supplied by the application (`new_accept_token`), not drawn by the endpoint
    pub token_from_app: bool,
}

impl Ep {
    fn new() -> Ep {
        Ep {
            conn: cx::Connection::new(),
            dead: false,
            hist: vec![],
            sub_vital: vec![],
            del_vital: vec![],
            sub_nonvital: vec![],
            pending_nonvital: VecDeque::new(),
            ready: 0,
            acked_known: 0,
            sent_accept: false,
            connector: false,
            token_from_app: false,
        }
    }
    pub fn kind(&self) -> String {
        fp_kind(&self.conn.verif_fingerprint())
    }
    pub fn needs_tick_us(&self) -> Option<u64> {
        self.conn.needs_tick().to_opt().map(|t| t.as_usecs_since_epoch())
    }
}

/// first identifier of the state's Debug rendering: `Online`, `Unconnected`, …
fn fp_kind(fp: &str) -> String {
    fp.chars().take_while(|c| c.is_ascii_alphanumeric()).collect()
}

/// the 8 hex digits following `key` in the fingerprint
fn fp_tok_after(fp: &str, key: &str) -> Option<[u8; 4]> {
    let i = fp.find(key)? + key.len();
    parse_tok(fp.get(i..i + 8)?)
}

pub struct World {
    pub eps: [Ep; 2],
    pub now: u64,
    /// no datagram from outside the two endpoints has been fed (C01/C02 oracles apply)
    pub pure: bool,
    /// the C01 assumptions (fewer than 512 unacknowledged, no datagram delayed across 512
    /// submissions of either side) have held so far
    pub assumptions_ok: bool,
    /// armed send faults of the two endpoints (`<ep> failsend <k>`)
    pub faults: [Vec<u32>; 2],
}

enum OpRes {
    Ok,
    TooLong,
}

fn is_nonidle(kind: &str) -> bool {
    matches!(kind, "Connecting" | "Pending" | "Online" | "Token" | "PendingConnect")
}

/// Outputs of a scripted follow-up on a (cloned) connection, for the C03 behavioural comparison.
fn follow_up(mut conn: cx::Connection, now: u64) -> String {
    let mut out = String::new();
    let mut cb = Cb::new(now, VecDeque::new());
    cb.draws.push_back([1, 2, 3, 4]);
    let r = catch(|| {
        let mut s = String::new();
        let nt = |c: &cx::Connection| format!("{:?};", c.needs_tick().to_opt().map(|t| t.as_usecs_since_epoch()));
        s.push_str(&nt(&conn));
        let _ = conn.tick(&mut cb);
        s.push_str(&nt(&conn));
        let kind = fp_kind(&conn.verif_fingerprint());
        if kind == "Online" {
            s.push_str(&format!("{:?};", conn.send(&mut cb, b"\xaa\xbb", true).is_ok()));
            s.push_str(&format!("{:?};", conn.send(&mut cb, b"\xcc", false).is_ok()));
            let _ = conn.flush(&mut cb);
        }
        cb.now += 600_000;
        let _ = conn.tick(&mut cb);
        s.push_str(&nt(&conn));
        cb.now += 1_100_000;
        let _ = conn.tick(&mut cb);
        s.push_str(&nt(&conn));
        if kind != "Disconnected" && kind != "Unconnected" {
            let _ = conn.disconnect(&mut cb, b"x");
        }
        s.push_str(&conn.verif_fingerprint());
        s
    });
    match r {
        Ok(s) => out.push_str(&s),
        Err(_) => out.push_str("panic;"),
    }
    for d in &cb.sent {
        out.push_str(&to_hex(d));
        out.push(';');
    }
    out
}

impl World {
    pub fn new() -> World {
        World { eps: [Ep::new(), Ep::new()], now: 0, pure: true, assumptions_ok: true, faults: [vec![], vec![]] }
    }

    /// `f:<op> …` (send-fault sessions): executed and checked by the oracles like any other op, but
    /// not compared with the model — both sides print `skip`
    pub fn exec(&mut self, toks: &[&str], o: &mut Oracle) -> String {
        if let Some(op) = toks.first().and_then(|t| t.strip_prefix("f:")) {
            let mut v: Vec<&str> = toks.to_vec();
            v[0] = op;
            if op != "new" {
                o.count("ops_not_compared_with_model");
                let _ = self.exec_op(&v, o);
            }
            return "skip".to_string();
        }
        self.exec_op(toks, o)
    }

    fn exec_op(&mut self, toks: &[&str], o: &mut Oracle) -> String {
        match toks {
            [ep, "failsend", k] if *ep == "a" || *ep == "b" => {
                // arm a send fault: the k-th next `Callback::send` of this endpoint returns `Err`;
                // `0` disarms (the network behaves again)
                let i = if *ep == "a" { 0 } else { 1 };
                match k.parse::<u32>() {
                    Ok(0) => {
                        self.faults[i].clear();
                        "ok".to_string()
                    }
                    Ok(k) if k <= 1000 => {
                        self.faults[i].push(k);
                        o.count("send_faults_armed");
                        "ok".to_string()
                    }
                    _ => "bad-op".to_string(),
                }
            }
            ["new"] => {
                *self = World::new();
                "ok".to_string()
            }
            ["time", ms] => match ms.parse::<u64>() {
                Ok(ms) => {
                    self.now += ms * 1000;
                    "ok".to_string()
                }
                Err(_) => "bad-op".to_string(),
            },
            ["quiet"] => {
                self.quiet(o);
                "ok".to_string()
            }
            [ep, rest @ ..] if (*ep == "a" || *ep == "b") && !rest.is_empty() => {
                let i = if *ep == "a" { 0 } else { 1 };
                self.ep_op(i, rest, o)
            }
            _ => "bad-op".to_string(),
        }
    }

    fn checks_on(&self) -> bool {
        self.pure && self.assumptions_ok
    }

    /// C02 oracle at the end of a fair suffix: everything submitted was delivered, the connecting
    /// side is ready, nothing is left queued or unacknowledged.
    fn quiet(&mut self, o: &mut Oracle) {
        o.count("quiet_checks");
        if !self.checks_on() {
            o.count("quiet_skipped_assumptions");
            return;
        }
        if let Err(msg) = self.quiescent_now() {
            o.fail("C02/not-quiescent", msg);
        }
    }

    /// Is the world quiescent (used by the oracle, and by the generator to end the fair suffix)?
    pub fn quiescent_now(&self) -> Result<(), String> {
        for i in 0..2 {
            let (e, p) = (&self.eps[i], &self.eps[1 - i]);
            if e.dead || p.dead {
                return Ok(());
            }
            // the application (or the peer) ended the connection: no progress obligation
            if e.kind() == "Disconnected" || p.kind() == "Disconnected" {
                return Ok(());
            }
            if p.del_vital.len() != e.sub_vital.len() {
                return Err(format!("endpoint {} submitted {} vital chunks, peer received {} after the fair suffix", i, e.sub_vital.len(), p.del_vital.len()));
            }
            if e.connector && e.ready != 1 {
                return Err(format!("connecting endpoint {} saw ready {} times after the fair suffix", i, e.ready));
            }
            if e.kind() == "Online" {
                // nothing queued (and no resend request pending): a flush sends nothing; nothing
                // unacknowledged: ticks one second later send at most a keep-alive (no chunk packet)
                let mut c = e.conn.verif_clone();
                let mut cb = Cb::new(self.now, VecDeque::new());
                let _ = catch(|| c.flush(&mut cb));
                if !cb.sent.is_empty() {
                    return Err(format!("endpoint {} still had something queued after the fair suffix", i));
                }
                cb.now += 1_000_000;
                let _ = catch(|| c.tick(&mut cb));
                let _ = catch(|| c.tick(&mut cb));
                for d in &cb.sent {
                    if parse_sent(d).chunks.is_some() {
                        return Err(format!("endpoint {} still had unacknowledged chunks after the fair suffix", i));
                    }
                }
            }
        }
        Ok(())
    }

    fn ep_op(&mut self, i: usize, args: &[&str], o: &mut Oracle) -> String {
        if self.eps[i].dead {
            return "dead".to_string();
        }
        let now = self.now;
        let mut cb = Cb::new(now, parse_draws(args));
        cb.faults = self.faults[i].clone();
        let fp_before = self.eps[i].conn.verif_fingerprint();
        let kind_before = fp_kind(&fp_before);
        let mut events: Vec<String> = vec![];
        let mut warns: Vec<String> = vec![];
        // precondition of the API call (for the C04 no-panic oracle)
        let mut permitted = true;
        let mut inert_check: Option<cx::Connection> = None;
        let mut fed_text: Option<String> = None;
        let mut inert_expected = false;
        let res: Result<OpRes, String> = match args {
            ["newaccept", t] => match (parse_tok(t), new_accept(&mut cb, parse_tok(t).unwrap_or([0; 4]))) {
                (Some(_), Some(c)) => {
                    self.pure = false;
                    let mut e = Ep::new();
                    e.conn = c;
                    e.token_from_app = true;
                    e.hist = std::mem::take(&mut self.eps[i].hist);
                    self.eps[i] = e;
                    Ok(OpRes::Ok)
                }
                _ => return "bad-op".to_string(),
            },
            ["connect", ..] => {
                permitted = kind_before == "Unconnected" && connect_draws_ok(&cb.draws);
                self.eps[i].connector = true;
                let ep = &mut self.eps[i];
                catch(|| ep.conn.connect(&mut cb)).map(|_| OpRes::Ok)
            }
            ["flush"] => {
                permitted = kind_before == "Online";
                let ep = &mut self.eps[i];
                catch(|| ep.conn.flush(&mut cb)).map(|_| OpRes::Ok)
            }
            ["tick"] => {
                let ep = &mut self.eps[i];
                catch(|| ep.conn.tick(&mut cb)).map(|_| OpRes::Ok)
            }
            ["needs_tick"] => Ok(OpRes::Ok),
            ["send", k, h] => {
                let data = match parse_hex(h) {
                    Some(d) => d,
                    None => return "bad-op".to_string(),
                };
                let vital = *k == "v";
                permitted = kind_before == "Online";
                if vital && self.pure {
                    let e = &self.eps[i];
                    if e.sub_vital.len() as u64 - e.acked_known.min(e.sub_vital.len() as u64) >= 512 {
                        self.assumptions_ok = false;
                    }
                }
                let ep = &mut self.eps[i];
                let r = catch(|| ep.conn.send(&mut cb, &data, vital));
                match r {
                    Err(e) => Err(e),
                    Ok(Ok(())) => {
                        if vital {
                            ep.sub_vital.push(data);
                        } else {
                            ep.sub_nonvital.push(data.clone());
                            ep.pending_nonvital.push_back(data);
                        }
                        Ok(OpRes::Ok)
                    }
                    Ok(Err(cx::Error::Callback(SendFail))) => {
                        // the implicit flush failed; the chunk itself has been accepted and queued
                        // (what the library does: a chunk handed to `send` that is not refused with
                        // `TooLongData` counts as submitted)
                        if vital {
                            ep.sub_vital.push(data);
                        } else {
                            ep.sub_nonvital.push(data.clone());
                            ep.pending_nonvital.push_back(data);
                        }
                        Ok(OpRes::Ok)
                    }
                    Ok(Err(cx::Error::TooLongData)) => {
                        o.count("send_toolong");
                        // a refused send leaves the connection unchanged
                        if ep.conn.verif_fingerprint() != fp_before || !cb.sent.is_empty() {
                            o.fail("C04/toolong-not-inert", format!("send of {} bytes returned TooLongData but changed the connection", data.len()));
                        }
                        Ok(OpRes::TooLong)
                    }
                }
            }
            ["sendcl", h] => {
                let data = match parse_hex(h) {
                    Some(d) => d,
                    None => return "bad-op".to_string(),
                };
                permitted = kind_before == "Online";
                let ep = &mut self.eps[i];
                match catch(|| ep.conn.send_connless(&mut cb, &data)) {
                    Err(e) => Err(e),
                    Ok(Ok(())) => Ok(OpRes::Ok),
                    Ok(Err(cx::Error::TooLongData)) => {
                        if !cb.sent.is_empty() {
                            o.fail("C04/toolong-not-inert", "send_connless returned TooLongData but sent a datagram".to_string());
                        }
                        Ok(OpRes::TooLong)
                    }
                    Ok(Err(cx::Error::Callback(SendFail))) => Ok(OpRes::Ok),
                }
            }
            ["disconnect", h] => {
                let reason = match parse_hex(h) {
                    Some(d) => d,
                    None => return "bad-op".to_string(),
                };
                permitted = kind_before != "Disconnected" && disconnect_permitted(&kind_before) && !reason.contains(&0) && reason.len() <= 127;
                let ep = &mut self.eps[i];
                catch(|| ep.conn.disconnect(&mut cb, &reason)).map(|_| OpRes::Ok)
            }
            [op, rest @ ..] if *op == "feed" || *op == "feedp" || *op == "dl" => {
                let (idx, rest) = if *op == "dl" {
                    match rest.split_first() {
                        Some((s, r)) => match s.parse::<usize>() {
                            Ok(n) => (Some(n), r),
                            Err(_) => return "bad-op".to_string(),
                        },
                        None => return "bad-op".to_string(),
                    }
                } else {
                    (None, rest)
                };
                if rest.len() < 1 + NP {
                    return "bad-op".to_string();
                }
                let bytes = match parse_hex(rest[0]) {
                    Some(d) => d,
                    None => return "bad-op".to_string(),
                };
                // integrity of the request line: the claimed parses are what the library's reader
                // says about these bytes
                let mut prev = String::new();
                for k in 0..NP {
                    let claimed = if rest[1 + k] == "=" && k > 0 { prev.clone() } else { rest[1 + k].to_string() };
                    if claimed != parse_dg(&bytes, k).text {
                        return "bad-feed-line".to_string();
                    }
                    prev = claimed;
                }
                match idx {
                    Some(n) => {
                        let peer = &mut self.eps[1 - i];
                        if n >= peer.hist.len() || peer.hist[n].bytes != bytes {
                            return "bad-feed-line".to_string();
                        }
                        peer.hist[n].delivered += 1;
                        let (sn, sd) = (peer.hist[n].stamp_n, peer.hist[n].stamp_d);
                        for k in 0..2 {
                            if self.eps[k].sub_vital.len() as u64 - sn[k] >= 512 {
                                self.assumptions_ok = false;
                            }
                        }
                        let e = &mut self.eps[i];
                        e.acked_known = e.acked_known.max(sd);
                    }
                    None => {
                        if *op == "feedp" {
                            if !is_pure_feed(&bytes) {
                                return "bad-feed-line".to_string();
                            }
                        } else {
                            self.pure = false;
                        }
                    }
                }
                // C03: a datagram without the agreed token is inert
                fed_text = Some(parse_sent(&bytes).text);
                if must_be_inert(&fp_before, &bytes) {
                    inert_expected = true;
                    inert_check = Some(self.eps[i].conn.verif_clone());
                }
                let ep = &mut self.eps[i];
                let mut buf = [0u8; 4096];
                let mut ws: Vec<cx::Warning> = vec![];
                let r = catch(|| {
                    let (it, res) = ep.conn.feed(&mut cb, &mut ws, &bytes, &mut buf[..]);
                    let evs: Vec<String> = it
                        .map(|c| match c {
                            cx::ReceiveChunk::Connless(d) => format!("cl.{}", to_hex(d)),
                            cx::ReceiveChunk::Connected(d, true) => format!("cv.{}", to_hex(d)),
                            cx::ReceiveChunk::Connected(d, false) => format!("cn.{}", to_hex(d)),
                            cx::ReceiveChunk::Ready => "rdy".to_string(),
                            cx::ReceiveChunk::Disconnect(d) => format!("dc.{}", to_hex(d)),
                        })
                        .collect();
                    let _ = res;
                    evs
                });
                for w in &ws {
                    if let Some(n) = warn_name(w) {
                        warns.push(n.to_string());
                    }
                }
                match r {
                    Ok(evs) => {
                        events = evs;
                        Ok(OpRes::Ok)
                    }
                    Err(e) => Err(e),
                }
            }
            _ => return "bad-op".to_string(),
        };

        // ---- datagrams handed to the send callback: C04 oracle + canonical text
        let mut sent_txt: Vec<String> = vec![];
        // datagrams whose send failed: they were handed to the callback (so the C04 checks apply)
        // but never reach the network — for the peer they are lost datagrams
        let mut failed_txt: Vec<String> = vec![];
        self.faults[i] = std::mem::take(&mut cb.faults);
        let failed_at = std::mem::take(&mut cb.failed_at);
        let stamp_n = [self.eps[0].sub_vital.len() as u64, self.eps[1].sub_vital.len() as u64];
        let stamp_d = self.eps[i].del_vital.len() as u64;
        for (di, d) in std::mem::take(&mut cb.sent).into_iter().enumerate() {
            let failed = failed_at.contains(&di);
            o.count(if failed { "sends_failed" } else { "datagrams_sent" });
            let p = parse_sent(&d);
            if !permitted {
                // outside the API's preconditions (e.g. an over-long close reason): no claim
                if failed {
                    failed_txt.push(p.text);
                } else {
                    sent_txt.push(p.text);
                    self.eps[i].hist.push(Dg { bytes: d, stamp_n, stamp_d, delivered: 0 });
                }
                continue;
            }
            if d.len() > 1400 {
                o.fail("C04/too-long", format!("datagram of {} bytes", d.len()));
            }
            if !p.clean {
                o.fail("C04/unclean", format!("the library's reader rejects or warns about a datagram the connection sent: {} -> {} warnings {}", to_hex(&d), p.text, p.warns));
            }
            if let Some((n, cs)) = &p.chunks {
                o.add("chunks_sent", cs.len() as u64);
                if *n as usize != cs.len() {
                    o.fail("C04/num-chunks", format!("header says {} chunks, datagram carries {}", n, cs.len()));
                }
                let ep = &mut self.eps[i];
                let mut seen_seq: Vec<u16> = vec![];
                for c in cs {
                    if let Some((seq, _)) = c.vital {
                        if seen_seq.contains(&seq) {
                            o.fail("C04/chunk-duplicated", format!("one datagram carries vital sequence {} twice", seq));
                        }
                        seen_seq.push(seq);
                    }
                    match c.vital {
                        None => {
                            let exp = ep.pending_nonvital.pop_front();
                            if exp.as_deref() != Some(&c.data[..]) {
                                o.fail("C04/chunk-integrity", format!("non-vital chunk {} on the wire, next queued was {:?}", to_hex(&c.data), exp.map(|e| to_hex(&e))));
                            }
                        }
                        Some((seq, _)) => {
                            let n = ep.sub_vital.len();
                            let mut found = false;
                            let mut k = n;
                            while k > 0 && n - k < 1024 {
                                k -= 1;
                                if (k + 1) % 1024 == seq as usize {
                                    found = ep.sub_vital[k] == c.data;
                                    break;
                                }
                            }
                            if !found {
                                o.fail("C04/chunk-integrity", format!("vital chunk seq {} data {} on the wire does not match what was queued", seq, to_hex(&c.data)));
                            }
                        }
                    }
                }
            }
            if failed {
                failed_txt.push(p.text);
                continue;
            }
            if is_accept_text(&p.text) {
                self.eps[i].sent_accept = true;
            }
            sent_txt.push(p.text);
            self.eps[i].hist.push(Dg { bytes: d, stamp_n, stamp_d, delivered: 0 });
        }

        // ---- C03: a token an endpoint draws for itself / hands out is never a reserved value
        // (inspected in its state — also after a panic — and in what it put on the wire)
        if !self.eps[i].token_from_app {
            let fp_now = self.eps[i].conn.verif_fingerprint();
            if let Some(t) = reserved_own_token(&fp_now, self.eps[i].connector) {
                o.fail("C03/reserved-token-handed-out", format!("endpoint {} holds the reserved value {} as the token it generated (state {})", i, t, fp_kind(&fp_now)));
            }
            for t in &sent_txt {
                if let Some(tok) = reserved_wire_token(t, self.eps[i].connector) {
                    o.fail("C03/reserved-token-handed-out", format!("endpoint {} put the reserved value {} on the wire as its own token: {}", i, tok, t));
                }
            }
        }

        let res = match res {
            Err(msg) => {
                self.eps[i].dead = true;
                o.count("panics");
                if permitted {
                    o.fail("C04/panic", format!("valid call `{}` in state {} panicked: {}", args[0], kind_before, msg));
                }
                return "panic".to_string();
            }
            Ok(r) => r,
        };

        // ---- events: C01 oracle
        if !events.is_empty() {
            let on = self.checks_on();
            for ev in &events {
                if ev == "rdy" {
                    self.eps[i].ready += 1;
                    if on {
                        if self.eps[i].ready > 1 {
                            o.fail("C01/ready-twice", format!("endpoint {} was told ready {} times", i, self.eps[i].ready));
                        }
                        if !self.eps[1 - i].sent_accept {
                            o.fail("C01/ready-before-accept", format!("endpoint {} ready before the peer answered", i));
                        }
                    }
                } else if let Some(h) = ev.strip_prefix("cv.") {
                    let data = parse_hex(h).unwrap_or_default();
                    let k = self.eps[i].del_vital.len();
                    self.eps[i].del_vital.push(data.clone());
                    if on {
                        o.count("c01_vital_checked");
                        let peer = &self.eps[1 - i];
                        if k >= peer.sub_vital.len() || peer.sub_vital[k] != data {
                            o.fail("C01/vital-prefix", format!("endpoint {} received vital chunk #{} = {}, peer submitted {:?}", i, k, to_hex(&data), peer.sub_vital.get(k).map(|d| to_hex(d))));
                        }
                    }
                } else if let Some(h) = ev.strip_prefix("cn.") {
                    if on {
                        let data = parse_hex(h).unwrap_or_default();
                        if !self.eps[1 - i].sub_nonvital.contains(&data) {
                            o.fail("C01/nonvital-membership", format!("endpoint {} received non-vital chunk {} the peer never submitted", i, to_hex(&data)));
                        }
                    }
                }
            }
        }

        // ---- a close datagram of the peer that carries the agreed token ends the connection
        if self.pure && (args[0] == "dl") {
            if let Some(txt) = &fed_text {
                if txt.contains(":cx.") && !inert_expected && kind_before != "Disconnected" && kind_before != "Unconnected" {
                    if !events.iter().any(|e| e.starts_with("dc.")) || self.eps[i].kind() != "Disconnected" {
                        o.fail("C02/close-ignored", format!("the peer's close datagram {} was not honoured in state {}", txt, kind_before));
                    }
                }
            }
        }

        // ---- C03 oracle
        if let Some(before) = inert_check {
            o.count("c03_foreign_feeds");
            let fp_after = self.eps[i].conn.verif_fingerprint();
            if !events.is_empty() {
                o.fail("C03/event", format!("datagram without the agreed token produced events {:?}", events));
            }
            if !sent_txt.is_empty() || !failed_txt.is_empty() {
                o.fail("C03/sent", format!("datagram without the agreed token triggered {:?} {:?}", sent_txt, failed_txt));
            }
            if fp_after != fp_before {
                o.fail("C03/state-changed", format!("before: {} after: {}", fp_before, fp_after));
            }
            let f1 = follow_up(before, now);
            let f2 = follow_up(self.eps[i].conn.verif_clone(), now);
            if f1 != f2 {
                o.fail("C03/behaviour-changed", format!("follow-up outputs differ: {} vs {}", &f1[..f1.len().min(300)], &f2[..f2.len().min(300)]));
            }
        }

        // ---- C02 deadline oracle
        let kind_after = self.eps[i].kind();
        let nt = self.eps[i].needs_tick_us();
        if is_nonidle(&kind_after) && nt.is_none() {
            if kind_after == "PendingConnect" {
                o.fail("C02/deadline-inactive-pendingconnect", "needs_tick is inactive while the acceptor waits for the connect".to_string());
            } else {
                o.fail("C02/deadline-inactive", format!("needs_tick is inactive in state {}", kind_after));
            }
        }

        let list = |v: &Vec<String>| if v.is_empty() { "-".to_string() } else { v.join(",") };
        let x = if failed_txt.is_empty() { String::new() } else { format!(" x={}", list(&failed_txt)) };
        format!(
            "{} s={} e={} w={} nt={}{}",
            match res {
                OpRes::Ok => "ok",
                OpRes::TooLong => "toolong",
            },
            list(&sent_txt),
            list(&events),
            list(&warns),
            match nt {
                None => "inactive".to_string(),
                Some(t) => t.to_string(),
            },
            x
        )
    }
}

pub struct R {
    w: World,
}

impl Runner for R {
    fn run(&mut self, toks: &[&str], oracle: &mut Oracle) -> String {
        self.w.exec(toks, oracle)
    }
}

// --------------------------------------------------------------------------------------------
// generator: drives a world of its own (the same real code) to produce request lines

pub struct Gen<'a> {
    pub w: World,
    pub out: &'a mut dyn Write,
    pub rng: Rng,
    pub o: Oracle,
    pub last: String,
    busy: Arc<AtomicU64>,
    pub lines: u64,
    /// prefix of every further line of the session: `f:` once a send fault has been armed (the
    /// model does not know send faults; such lines are run under the oracles only)
    pub pfx: &'static str,
}

impl<'a> Gen<'a> {
    pub fn new(out: &'a mut dyn Write, seed: u64) -> Gen<'a> {
        // a call into the real code that never returns (the defect the C02 check looks for) must
        // not hang the generator: every line is flushed before it is executed, and a watchdog ends
        // the generator — the runner then meets the same call under its own watchdog
        let busy = Arc::new(AtomicU64::new(0));
        {
            let busy = busy.clone();
            std::thread::spawn(move || {
                let mut last = 0u64;
                let mut same = 0u32;
                loop {
                    std::thread::sleep(std::time::Duration::from_millis(250));
                    let b = busy.load(Ordering::SeqCst);
                    if b & 1 == 1 && b == last {
                        same += 1;
                        if same >= 12 {
                            std::process::exit(0);
                        }
                    } else {
                        same = 0;
                        last = b;
                    }
                }
            });
        }
        Gen { w: World::new(), out, rng: Rng::new(seed), o: Oracle::new(), last: String::new(), busy, lines: 0, pfx: "" }
    }

    /// emit one request line and execute it on the generator's own world
    pub fn line(&mut self, l: &str) -> &str {
        if l == "new" {
            self.pfx = "";
        }
        let l = &format!("{}{}", self.pfx, l);
        writeln!(self.out, "{}", l).unwrap();
        self.out.flush().unwrap();
        self.lines += 1;
        let toks: Vec<&str> = l.split_ascii_whitespace().collect();
        self.busy.store((self.lines << 1) | 1, Ordering::SeqCst);
        self.last = self.w.exec(&toks, &mut self.o);
        self.busy.store(self.lines << 1, Ordering::SeqCst);
        // the generator's oracle log is not used
        self.o.fails.clear();
        &self.last
    }

    /// arm a send fault at endpoint `i` (the k-th next send fails; 0 disarms); from here on the
    /// session is not compared with the model
    pub fn failsend(&mut self, i: usize, k: u32) {
        self.pfx = "f:";
        self.line(&format!("{} failsend {}", Self::ep(i), k));
    }

    pub fn ep(i: usize) -> &'static str {
        if i == 0 {
            "a"
        } else {
            "b"
        }
    }

    fn draws(&mut self) -> String {
        // mostly one valid draw; sometimes reserved values first (exercises the redraw loop)
        let mut v: Vec<String> = vec![];
        while self.rng.chance(1, 8) {
            v.push(if self.rng.chance(1, 2) { "ffffffff".to_string() } else { "00000000".to_string() });
        }
        let t = self.rng.next() as u32 | 0x0100;
        v.push(format!("{:08x}", t));
        format!("r={}", v.join(","))
    }

    /// text of the parses of a datagram under every hint, with `=` compression
    pub fn parses(bytes: &[u8]) -> String {
        let mut out: Vec<String> = vec![];
        let mut prev = String::new();
        for k in 0..NP {
            let t = parse_dg(bytes, k).text;
            if k > 0 && t == prev {
                out.push("=".to_string());
            } else {
                out.push(t.clone());
            }
            prev = t;
        }
        out.join(" ")
    }

    /// deliver datagram `n` of endpoint `from`'s history to the other endpoint
    pub fn deliver(&mut self, from: usize, n: usize) {
        let bytes = self.w.eps[from].hist[n].bytes.clone();
        let d = self.draws();
        let l = format!("{} dl {} {} {} {}", Self::ep(1 - from), n, to_hex(&bytes), Self::parses(&bytes), d);
        self.line(&l);
    }

    /// like `deliver`, with the given upcoming results of `secure_random`
    pub fn deliver_with(&mut self, from: usize, n: usize, draws: &str) {
        let bytes = self.w.eps[from].hist[n].bytes.clone();
        let l = format!("{} dl {} {} {} r={}", Self::ep(1 - from), n, to_hex(&bytes), Self::parses(&bytes), draws);
        self.line(&l);
    }

    /// an outside datagram
    pub fn feed(&mut self, to: usize, bytes: &[u8]) {
        let d = self.draws();
        let l = format!("{} feed {} {} {}", Self::ep(to), to_hex(bytes), Self::parses(bytes), d);
        self.line(&l);
    }

    pub fn undelivered(&self, from: usize) -> Vec<usize> {
        self.w.eps[from].hist.iter().enumerate().filter(|(_, d)| d.delivered == 0).map(|(i, _)| i).collect()
    }

    pub fn payload(&mut self, sizes: &[usize]) -> Vec<u8> {
        let n = *self.rng.pick(sizes);
        let mode = self.rng.below(4);
        (0..n)
            .map(|j| match mode {
                0 => 0u8,
                1 => (j as u8).wrapping_mul(7),
                _ => self.rng.next() as u8,
            })
            .collect()
    }

    pub fn connect(&mut self, i: usize) {
        let d = self.draws();
        self.line(&format!("{} connect {}", Self::ep(i), d));
    }

    /// handshake a -> b over a network that loses / duplicates datagrams with the given
    /// probability (per mille); returns true when both sides are online
    pub fn handshake(&mut self, lossy: u64, tokenless: bool) -> bool {
        self.connect(0);
        for _round in 0..12 {
            for from in 0..2 {
                for n in self.undelivered(from) {
                    if self.rng.below(1000) < lossy {
                        self.w.eps[from].hist[n].delivered = 1; // lost
                        continue;
                    }
                    if tokenless && from == 0 && strip_connect_token(&self.w.eps[0].hist[n].bytes).is_some() {
                        let b = strip_connect_token(&self.w.eps[0].hist[n].bytes).unwrap();
                        self.w.eps[0].hist[n].delivered = 1;
                        let l = format!("b feedp {} {}", to_hex(&b), Self::parses(&b));
                        self.line(&l);
                    } else {
                        self.deliver(from, n);
                        if self.rng.below(1000) < lossy {
                            self.deliver(from, n);
                        }
                    }
                }
            }
            let (ka, kb) = (self.w.eps[0].kind(), self.w.eps[1].kind());
            if ka == "Online" && (kb == "Online" || kb == "Pending") {
                // the acceptor of 0.6 and 0.7 goes online with the first chunk packet
                if kb == "Pending" {
                    self.line("a send v 68656c6c6f");
                    self.line("a flush");
                    for n in self.undelivered(0) {
                        self.deliver(0, n);
                    }
                }
                return !self.w.eps[0].dead && !self.w.eps[1].dead && self.w.eps[1].kind() == "Online";
            }
            if self.w.eps[0].dead || self.w.eps[1].dead {
                return false;
            }
            self.advance_to_deadline();
        }
        // the lossy rounds did not complete the handshake: from here on the network is fair, and the
        // progress oracle (`quiet`) demands that the connector becomes ready
        if !self.w.eps[0].dead && !self.w.eps[1].dead {
            self.fair_suffix(30);
        }
        false
    }

    /// clock jumps to the earliest deadline of the two endpoints; each endpoint whose deadline has
    /// passed ticks
    pub fn advance_to_deadline(&mut self) {
        let d: Vec<u64> = (0..2).filter(|&i| !self.w.eps[i].dead).filter_map(|i| self.w.eps[i].needs_tick_us()).collect();
        if let Some(&t) = d.iter().min() {
            if t > self.w.now {
                let ms = (t - self.w.now + 999) / 1000;
                self.line(&format!("time {}", ms));
            }
        } else {
            self.line("time 500");
        }
        for i in 0..2 {
            if self.w.eps[i].dead {
                continue;
            }
            if let Some(t) = self.w.eps[i].needs_tick_us() {
                if t <= self.w.now {
                    self.line(&format!("{} tick", Self::ep(i)));
                }
            }
        }
    }

    /// the deterministic fair suffix: every in-flight datagram is delivered once, in order; both
    /// sides tick at their deadline; until everything submitted has arrived (at most `max` rounds)
    pub fn fair_suffix(&mut self, max: usize) {
        for i in 0..2 {
            if !self.w.eps[i].dead && self.w.eps[i].kind() == "Online" {
                self.line(&format!("{} flush", Self::ep(i)));
            }
        }
        let mut settled = 0;
        for _ in 0..max {
            let before = [self.w.eps[0].hist.len(), self.w.eps[1].hist.len()];
            for from in 0..2 {
                for n in self.undelivered(from) {
                    if self.w.eps[1 - from].dead {
                        self.w.eps[from].hist[n].delivered = 1;
                        continue;
                    }
                    self.deliver(from, n);
                }
            }
            if self.w.eps[0].dead || self.w.eps[1].dead {
                break;
            }
            self.advance_to_deadline();
            // settled: everything has arrived, nothing is queued or unacknowledged, and a whole
            // round produced no chunk packet
            let chunky = (0..2).any(|i| self.w.eps[i].hist[before[i]..].iter().any(|d| parse_sent(&d.bytes).chunks.is_some()));
            if !chunky && self.w.quiescent_now().is_ok() {
                settled += 1;
                if settled >= 2 {
                    break;
                }
            } else {
                settled = 0;
            }
        }
        self.line("quiet");
    }
}
