//! Domain `demohl`: the high-level `libtw2_demo::ddnet::DemoWriter` / `DemoReader` over the DDNet
//! protocol crate (`libtw2_gamenet_ddnet`), in memory.  Property C15 (typed level).
//!
//! Line protocol: see `lean/Tw/Drv/Demohl.lean`.
//!
//! The oracle evaluates C15 on the real code without the Lean model:
//!  * on every `read`, the reader must report, in order, exactly the accepted calls: for each
//!    accepted `write_snap(tick, objects)` a `Tick(tick)` followed by a `Snapshot` with exactly that
//!    object set (type, id, fields), for each accepted `write_msg` the same message; the header
//!    fields; no error, no warning, no `Invalid` chunk;
//!  * `write_snap` with a tick that is not larger than the last accepted one returns
//!    `Err(TooLowTickNumber)` (no panic);
//!  * no call panics; a call with a small valid object set and a larger tick is accepted whatever
//!    was refused before (the recording stays usable).
use super::d_demo::data_tok;
use super::d_demo::parse_data;
use super::d_demo::Shared;
use crate::util::*;
use libtw2_common::digest::Sha256;
use libtw2_demo::ddnet::Chunk;
use libtw2_demo::ddnet::DemoReader;
use libtw2_demo::ddnet::DemoWriter;
use libtw2_demo::ddnet::WriteError;
use libtw2_demo::DemoKind;
use libtw2_gamenet_common::snap_obj::TypeId;
use libtw2_gamenet_common::traits::MessageExt;
use libtw2_gamenet_ddnet::msg::game;
use libtw2_gamenet_ddnet::msg::Game;
use libtw2_gamenet_ddnet::snap_obj;
use libtw2_gamenet_ddnet::snap_obj::SnapObj;
use libtw2_gamenet_ddnet::Protocol;
use libtw2_packer::with_packer;
use libtw2_packer::IntUnpacker;
use libtw2_snapshot::snap::BuilderError;
use std::io;
use std::io::Write;

pub struct D;

pub fn domain() -> Box<dyn Domain> {
    Box::new(D)
}

// ------------------------------------------------------------------------------------------
// objects and messages in text form

/// `(type, id, fields)`; sorted by this triple wherever a set is printed or compared
pub type Item = (String, u16, Vec<i32>);

pub fn tid_text(t: TypeId) -> String {
    match t {
        TypeId::Ordinal(o) => format!("o{}", o),
        TypeId::Uuid(u) => format!("u{}", to_hex(u.as_bytes())),
    }
}

pub fn parse_tid(s: &str) -> Option<TypeId> {
    if let Some(r) = s.strip_prefix('o') {
        Some(TypeId::Ordinal(r.parse().ok()?))
    } else if let Some(r) = s.strip_prefix('u') {
        let b = parse_hex(r)?;
        if b.len() != 16 {
            return None;
        }
        let mut a = [0u8; 16];
        a.copy_from_slice(&b);
        Some(TypeId::Uuid(uuid::Uuid::from_bytes(a)))
    } else {
        None
    }
}

fn ints_text(v: &[i32]) -> String {
    v.iter().map(|x| x.to_string()).collect::<Vec<_>>().join(",")
}

pub fn items_text(items: &[Item]) -> String {
    if items.is_empty() {
        return "-".to_string();
    }
    items.iter().map(|(t, id, d)| format!("{}.{}:{}", t, id, ints_text(d))).collect::<Vec<_>>().join(";")
}

pub fn parse_items(s: &str) -> Option<Vec<(TypeId, u16, Vec<i32>)>> {
    if s == "-" {
        return Some(vec![]);
    }
    let mut out = vec![];
    for it in s.split(';') {
        let (h, v) = it.split_once(':')?;
        let (t, id) = h.split_once('.')?;
        let t = parse_tid(t)?;
        let id: u16 = id.parse().ok()?;
        let d: Vec<i32> = if v.is_empty() { vec![] } else { v.split(',').map(|x| x.parse::<i32>().ok()).collect::<Option<Vec<_>>>()? };
        out.push((t, id, d));
    }
    Some(out)
}

/// the object with these fields, if the protocol crate accepts them unchanged
pub fn make_obj(t: TypeId, d: &[i32]) -> Option<SnapObj> {
    let mut ws: Vec<libtw2_packer::ExcessData> = vec![];
    let o = SnapObj::decode_obj(&mut ws, t, &mut IntUnpacker::new(d)).ok()?;
    if !ws.is_empty() || o.encode() != d || o.obj_type_id() != t {
        return None;
    }
    Some(o)
}

#[derive(Clone, Debug, PartialEq, Eq)]
pub enum OMsg {
    Motd(Vec<u8>),
    Chat(i32, i32, Vec<u8>),
}

impl OMsg {
    fn text(&self) -> String {
        match self {
            OMsg::Motd(m) => format!("motd {}", data_tok(m)),
            OMsg::Chat(t, c, m) => format!("chat {} {} {}", t, c, data_tok(m)),
        }
    }
    fn valid(&self) -> bool {
        match self {
            OMsg::Motd(m) => !m.contains(&0),
            OMsg::Chat(t, c, m) => (-2..=3).contains(t) && (-1..=127).contains(c) && m.iter().all(|&b| b >= 32),
        }
    }
    fn game(&self) -> Game<'_> {
        match self {
            OMsg::Motd(m) => Game::SvMotd(game::SvMotd { message: m }),
            OMsg::Chat(t, c, m) => Game::SvChat(game::SvChat { team: *t, client_id: *c, message: m }),
        }
    }
    fn from_game(g: &Game) -> Option<OMsg> {
        match g {
            Game::SvMotd(m) => Some(OMsg::Motd(m.message.to_vec())),
            Game::SvChat(c) => Some(OMsg::Chat(c.team, c.client_id, c.message.to_vec())),
            _ => None,
        }
    }
}

// ------------------------------------------------------------------------------------------
// reading side

#[derive(Clone, Debug, PartialEq, Eq)]
pub enum OChunk {
    Tick(i32),
    Snapshot(Vec<Item>),
    Message(Vec<u8>),
    Invalid,
}

fn pad4(d: &[u8]) -> Vec<u8> {
    let mut v = d.to_vec();
    while v.len() % 4 != 0 {
        v.push(0);
    }
    v
}

impl OChunk {
    fn text(&self) -> String {
        match self {
            OChunk::Tick(t) => format!("T{}", t),
            OChunk::Snapshot(items) => {
                let s = items_text(items);
                if s.len() > 200 {
                    format!("S[#{}:{}]", items.len(), fnv_bytes(FNV_OFFSET, s.as_bytes()))
                } else {
                    format!("S[{}]", s)
                }
            }
            OChunk::Message(d) => format!("M:{}", data_tok(d)),
            OChunk::Invalid => "I".to_string(),
        }
    }
}

pub struct ReadOut {
    pub header: super::d_demo::OHeader,
    pub chunks: Vec<OChunk>,
    pub error: Option<String>,
    pub warnings: Vec<String>,
}

fn encode_game(g: &Game) -> Vec<u8> {
    let mut buf: Vec<u8> = Vec::with_capacity(1 << 17);
    with_packer(&mut buf, |p| g.encode(p).map(|_| ())).unwrap();
    buf
}

pub fn read_file(bytes: Vec<u8>) -> Option<ReadOut> {
    let mut ws: Vec<libtw2_demo::ddnet::Warning> = vec![];
    let mut reader = match DemoReader::<Protocol>::new(io::Cursor::new(bytes), &mut ws) {
        Ok(r) => r,
        Err(_) => return None,
    };
    let header = super::d_demo::OHeader {
        version: super::d_demo::version_num(reader.version()),
        net_version: reader.net_version().to_vec(),
        map_name: reader.map_name().to_vec(),
        map_size: reader.map_size(),
        crc: reader.map_crc(),
        server: match reader.kind() {
            DemoKind::Client => false,
            DemoKind::Server => true,
        },
        length: reader.length(),
        timestamp: reader.timestamp().to_vec(),
        markers: reader.timeline_markers().to_vec(),
        sha: reader.map_sha256().map(|s| s.0.to_vec()),
        map: reader.map_data().to_vec(),
    };
    let mut chunks = vec![];
    let mut error = None;
    loop {
        match reader.next_chunk(&mut ws) {
            Ok(None) => break,
            Ok(Some(c)) => chunks.push(match c {
                Chunk::Tick(t) => OChunk::Tick(t),
                Chunk::Snapshot(it) => {
                    let mut items: Vec<Item> = it.map(|(o, id)| (tid_text(o.obj_type_id()), *id, o.encode().to_vec())).collect();
                    items.sort();
                    OChunk::Snapshot(items)
                }
                Chunk::Message(g) => OChunk::Message(pad4(&encode_game(&g))),
                Chunk::Invalid => OChunk::Invalid,
            }),
            Err(e) => {
                error = Some(match e {
                    libtw2_demo::ddnet::ReadError::Inner(e) => super::d_demo::read_error_name(&e),
                    libtw2_demo::ddnet::ReadError::Snap(e) => format!("Snap({:?})", e),
                });
                break;
            }
        }
    }
    Some(ReadOut { header, chunks, error, warnings: ws.iter().map(|w| format!("{:?}", w)).collect() })
}

pub fn read_text(r: &Option<ReadOut>) -> String {
    let r = match r {
        None => return "hdr-err".to_string(),
        Some(r) => r,
    };
    let h = &r.header;
    let strs: Vec<String> = r.chunks.iter().map(|c| c.text()).collect();
    let cs = if strs.len() <= 24 {
        list_str(strs)
    } else {
        format!("#{}:{}", strs.len(), fnv_bytes(FNV_OFFSET, strs.join(",").as_bytes()))
    };
    format!(
        "v{} nv={} mn={} ms={} crc={} k={} len={} ts={} sha={} map={} | {} | {} | w={}",
        h.version,
        to_hex(&h.net_version),
        to_hex(&h.map_name),
        h.map_size,
        h.crc,
        if h.server { "s" } else { "c" },
        h.length,
        to_hex(&h.timestamp),
        match &h.sha {
            None => "none".to_string(),
            Some(s) => to_hex(s),
        },
        data_tok(&h.map),
        cs,
        match &r.error {
            None => "end".to_string(),
            Some(e) => format!("err:{}", e),
        },
        list_str(r.warnings.iter().cloned()),
    )
}

// ------------------------------------------------------------------------------------------
// runner

struct Args {
    net_version: Vec<u8>,
    map_name: Vec<u8>,
    sha: Option<Vec<u8>>,
    crc: u32,
    server: bool,
    length: i32,
    timestamp: Vec<u8>,
    map: Vec<u8>,
}

struct R {
    file: Shared,
    writer: Option<DemoWriter<'static, Protocol>>,
    args: Option<Args>,
    /// what the accepted calls should look like to the reader (oracle bookkeeping)
    accepted: Vec<OChunk>,
    last_tick: Option<i32>,
    last_keyframe: Option<i32>,
    /// some call of the session panicked: the writer's state is undefined from then on
    panicked: bool,
}

fn werr_name(e: &WriteError) -> String {
    match e {
        WriteError::Inner(_) => "Inner".to_string(),
        WriteError::SnapBuilder(BuilderError::DuplicateKey) => "SnapBuilder(DuplicateKey)".to_string(),
        WriteError::SnapBuilder(BuilderError::TooLongSnap) => "SnapBuilder(TooLongSnap)".to_string(),
        WriteError::SnapBuilder(BuilderError::TooManyItems) => "SnapBuilder(TooManyItems)".to_string(),
        WriteError::TooLowTickNumber => "TooLowTickNumber".to_string(),
        WriteError::TooLargeSnap => "TooLargeSnap".to_string(),
        WriteError::TooLongNetMsg => "TooLongNetMsg".to_string(),
    }
}

/// the limits of the low-level writer (`expect`s) reached through the high-level calls are one
/// known class of panic; anything else is reported separately
fn panic_tag(msg: &str) -> &'static str {
    if msg.contains("too long compression") || msg.contains("overlong message") || (msg.contains("Overflow casting") && msg.contains("`u16`")) {
        "C15/hl-writer-panics-on-incompressible-payload"
    } else {
        "C15/hl-writer-panic"
    }
}

impl R {
    fn new() -> R {
        R { file: Shared::new(), writer: None, args: None, accepted: vec![], last_tick: None, last_keyframe: None, panicked: false }
    }

    fn snap(&mut self, tick: i32, items: Vec<(TypeId, u16, Vec<i32>)>, o: &mut Oracle) -> String {
        let objs: Option<Vec<(SnapObj, u16)>> = items.iter().map(|(t, id, d)| make_obj(*t, d).map(|ob| (ob, *id))).collect();
        let objs = match objs {
            Some(x) => x,
            None => return "bad-item".to_string(),
        };
        let w = match self.writer.as_mut() {
            None => return "no-writer".to_string(),
            Some(w) => w,
        };
        let mut texts: Vec<Item> = items.iter().map(|(t, id, d)| (tid_text(*t), *id, d.clone())).collect();
        texts.sort();
        let mut keys: Vec<(String, u16)> = texts.iter().map(|(t, id, _)| (t.clone(), *id)).collect();
        keys.dedup();
        let distinct_keys = keys.len() == texts.len();
        let low = self.last_tick.map(|l| tick <= l).unwrap_or(false) || tick < 0;
        let before = self.file.len();
        let res = catch(|| w.write_snap(tick, objs.iter().map(|(ob, id)| (ob, *id))));
        match res {
            Ok(Ok(())) => {
                o.count("snap-ok");
                // the documented mechanism, checked on the appended bytes: a full snapshot (flagged as key
                // frame) when none was written yet or more than 250 ticks after the last one, a delta otherwise
                let appended = self.file.bytes()[before..].to_vec();
                let want_kf = match self.last_keyframe {
                    None => true,
                    Some(k) => tick as i64 - k as i64 > 250,
                };
                let marker = if appended[0] & 0x20 != 0 { 1 } else { 5 };
                let flagged = appended[0] & 0x40 != 0;
                let full = appended.get(marker).map(|b| b & 0x60 == 0x20).unwrap_or(false);
                o.count(if full { "key-frame" } else { "delta-frame" });
                if full != want_kf || flagged != want_kf {
                    o.fail("C15/key-frame-rule", format!("tick {} last key frame {:?}: full snapshot {} flagged {}", tick, self.last_keyframe, full, flagged));
                }
                if full {
                    self.last_keyframe = Some(tick);
                }
                if self.last_tick.map(|l| tick <= l).unwrap_or(false) {
                    o.fail("C15/non-increasing-tick-accepted", format!("tick {} after {:?}", tick, self.last_tick));
                }
                self.last_tick = Some(tick);
                self.accepted.push(OChunk::Tick(tick));
                self.accepted.push(OChunk::Snapshot(texts));
                format!("ok {}", self.file.len())
            }
            Ok(Err(e)) => {
                let n = werr_name(&e);
                o.count(&format!("snap-err-{}", n));
                if self.last_tick.map(|l| tick <= l).unwrap_or(false) {
                    if n != "TooLowTickNumber" {
                        o.fail("C15/low-tick-wrong-error", format!("tick {} after {:?} -> {}", tick, self.last_tick, n));
                    }
                } else if !low && distinct_keys && texts.len() <= 64 && !self.panicked {
                    // a small valid object set with a larger tick must be accepted whatever happened before
                    o.fail("C15/valid-snap-refused", format!("tick {} ({} objects, last accepted tick {:?}) -> {}", tick, texts.len(), self.last_tick, n));
                }
                format!("err {}", n)
            }
            Err(msg) => {
                o.count("snap-panic");
                if self.last_tick.map(|l| tick <= l).unwrap_or(false) {
                    o.fail("C15/low-tick-panics", format!("tick {} after {:?} -> {}", tick, self.last_tick, msg));
                } else if !self.panicked {
                    o.fail(panic_tag(&msg), format!("write_snap tick {} ({} objects) -> {}", tick, texts.len(), msg));
                }
                self.panicked = true;
                "panic".to_string()
            }
        }
    }

    fn msg(&mut self, m: OMsg, o: &mut Oracle) -> String {
        if !m.valid() {
            return "bad-msg".to_string();
        }
        let w = match self.writer.as_mut() {
            None => return "no-writer".to_string(),
            Some(w) => w,
        };
        let g = m.game();
        let res = catch(|| w.write_msg(&g));
        match res {
            Ok(Ok(())) => {
                o.count("msg-ok");
                self.accepted.push(OChunk::Message(pad4(&encode_game(&g))));
                format!("ok {}", self.file.len())
            }
            Ok(Err(e)) => {
                let n = werr_name(&e);
                o.count(&format!("msg-err-{}", n));
                let small = match &m {
                    OMsg::Motd(s) => s.len() < 1000,
                    OMsg::Chat(_, _, s) => s.len() < 1000,
                };
                if small && !self.panicked {
                    o.fail("C15/valid-msg-refused", format!("{} -> {}", m.text(), n));
                }
                format!("err {}", n)
            }
            Err(msg) => {
                o.count("msg-panic");
                if !self.panicked {
                    o.fail(panic_tag(&msg), format!("write_msg {} -> {}", m.text(), msg));
                }
                self.panicked = true;
                "panic".to_string()
            }
        }
    }

    fn check_roundtrip(&self, out: &Option<ReadOut>, o: &mut Oracle) {
        let a = match &self.args {
            None => return,
            Some(a) => a,
        };
        if self.panicked {
            return;
        }
        o.count("roundtrip-checked");
        let r = match out {
            None => {
                o.fail("C15/hl-reader-refuses-written-header", String::new());
                return;
            }
            Some(r) => r,
        };
        let want = super::d_demo::OHeader {
            version: if a.sha.is_some() { 6 } else { 5 },
            net_version: a.net_version.clone(),
            map_name: a.map_name.clone(),
            map_size: a.map.len() as u32,
            crc: a.crc,
            server: a.server,
            length: a.length,
            timestamp: a.timestamp.clone(),
            markers: vec![],
            sha: a.sha.clone(),
            map: a.map.clone(),
        };
        if r.header != want {
            o.fail("C15/hl-header-fields-differ", format!("written {:?} read {:?}", want, r.header).chars().take(600).collect());
        }
        if let Some(e) = &r.error {
            o.fail("C15/hl-reader-error-on-written-file", format!("{} after {} of {} chunks", e, r.chunks.len(), self.accepted.len()));
        } else if r.chunks != self.accepted {
            let i = r.chunks.iter().zip(self.accepted.iter()).position(|(a, b)| a != b).unwrap_or(r.chunks.len().min(self.accepted.len()));
            o.fail(
                "C15/hl-chunks-differ",
                format!(
                    "{} accepted, {} read; first difference at {}: accepted {} read {}",
                    self.accepted.len(),
                    r.chunks.len(),
                    i,
                    self.accepted.get(i).map(|c| c.text()).unwrap_or_default(),
                    r.chunks.get(i).map(|c| c.text()).unwrap_or_default()
                )
                .chars()
                .take(700)
                .collect(),
            );
        }
        if !r.warnings.is_empty() {
            o.fail("C15/hl-warning-on-written-file", r.warnings.join(",").chars().take(300).collect());
        }
    }
}

impl Runner for R {
    fn run(&mut self, t: &[&str], o: &mut Oracle) -> String {
        match t {
            ["new", nv, mn, sha, crc, k, len, ts, map] => {
                *self = R::new();
                let sha = if *sha == "none" {
                    Some(None)
                } else {
                    match parse_data(sha) {
                        Some(b) if b.len() == 32 => Some(Some(b)),
                        _ => None,
                    }
                };
                let server = match *k {
                    "c" => Some(false),
                    "s" => Some(true),
                    _ => None,
                };
                let (nv, mn, sha, crc, server, len, ts, map) =
                    match (parse_data(nv), parse_data(mn), sha, crc.parse::<u32>().ok(), server, len.parse::<i32>().ok(), parse_data(ts), parse_data(map)) {
                        (Some(a), Some(b), Some(c), Some(d), Some(e), Some(f), Some(g), Some(h)) => (a, b, c, d, e, f, g, h),
                        _ => return "bad-args".to_string(),
                    };
                let file = self.file.clone();
                let res = catch(|| {
                    DemoWriter::<Protocol>::new(
                        file,
                        &nv,
                        &mn,
                        sha.as_ref().map(|s| Sha256::from_slice(s).unwrap()),
                        crc,
                        if server { DemoKind::Server } else { DemoKind::Client },
                        len,
                        &ts,
                        &map,
                    )
                });
                match res {
                    Ok(Ok(w)) => {
                        self.writer = Some(w);
                        let b = self.file.bytes();
                        if b != super::d_demo::doc_header(&nv, &mn, sha.as_deref(), crc, server, len, &ts, &map) {
                            o.fail("C15/header-layout", format!("the {} bytes written by DemoWriter::new are not the documented layout of these fields", b.len()));
                        }
                        self.args = Some(Args { net_version: nv, map_name: mn, sha, crc, server, length: len, timestamp: ts, map });
                        format!("ok {} {}", b.len(), fnv_bytes(FNV_OFFSET, &b))
                    }
                    Ok(Err(e)) => format!("err {}", werr_name(&e)),
                    Err(_) => "panic".to_string(),
                }
            }
            ["snap", tick, items] => {
                if self.writer.is_none() {
                    return "no-writer".to_string();
                }
                match (tick.parse::<i32>().ok(), parse_items(items)) {
                    (Some(tick), Some(items)) => self.snap(tick, items, o),
                    _ => "bad-args".to_string(),
                }
            }
            ["motd", m] => {
                if self.writer.is_none() {
                    return "no-writer".to_string();
                }
                match parse_data(m) {
                    Some(m) => self.msg(OMsg::Motd(m), o),
                    None => "bad-args".to_string(),
                }
            }
            ["chat", team, cid, m] => {
                if self.writer.is_none() {
                    return "no-writer".to_string();
                }
                match (team.parse::<i32>().ok(), cid.parse::<i32>().ok(), parse_data(m)) {
                    (Some(t), Some(c), Some(m)) => self.msg(OMsg::Chat(t, c, m), o),
                    _ => "bad-args".to_string(),
                }
            }
            ["file"] => {
                if self.writer.is_none() {
                    return "no-writer".to_string();
                }
                data_tok(&self.file.bytes())
            }
            ["read"] => {
                if self.writer.is_none() {
                    return "no-writer".to_string();
                }
                let out = read_file(self.file.bytes());
                if let Some(r) = &out {
                    match &r.error {
                        None => o.count("read-end"),
                        Some(e) => o.count(&format!("read-err-{}", e)),
                    }
                    o.add("chunks-read", r.chunks.len() as u64);
                }
                self.check_roundtrip(&out, o);
                read_text(&out)
            }
            ["mutall"] => {
                if self.writer.is_none() {
                    return "no-writer".to_string();
                }
                let f = self.file.bytes();
                let mut try_file = |b: Vec<u8>, what: String, o: &mut Oracle| {
                    if let Err(msg) = catch(|| read_text(&read_file(b))) {
                        o.fail("C15/reader-panics-on-damaged-file", format!("{}: {}", what, msg));
                    }
                };
                for i in 0..f.len() {
                    for x in [0x01u8, 0x80, 0xff] {
                        let mut b = f.clone();
                        b[i] ^= x;
                        try_file(b, format!("byte {} xor {:#x}", i, x), o);
                    }
                    try_file(f[..i].to_vec(), format!("truncated to {} bytes", i), o);
                }
                o.add("damaged_files_swept", 4 * f.len() as u64);
                format!("n {}", 4 * f.len())
            }
            ["last"] => {
                // the last snapshot the reader reports, in full
                if self.writer.is_none() {
                    return "no-writer".to_string();
                }
                let out = read_file(self.file.bytes());
                match out {
                    None => "hdr-err".to_string(),
                    Some(r) => {
                        let l = r.chunks.iter().rev().find_map(|c| match c {
                            OChunk::Snapshot(items) => Some(items_text(items)),
                            _ => None,
                        });
                        match l {
                            Some(s) => {
                                if s.len() > 2000 {
                                    format!("#{}", fnv_bytes(FNV_OFFSET, s.as_bytes()))
                                } else {
                                    s
                                }
                            }
                            None => "none".to_string(),
                        }
                    }
                }
            }
            [_op, ..] => {
                if self.writer.is_none() {
                    "no-writer".to_string()
                } else {
                    "bad-op".to_string()
                }
            }
            _ => "bad-op".to_string(),
        }
    }
}

impl Domain for D {
    fn gen(&self, tier: &str, seed: u64, out: &mut dyn Write) {
        let mut g = G { rng: Rng::new(seed ^ 0xde31), w: out };
        g.run(tier);
    }
    fn runner(&self) -> Box<dyn Runner> {
        Box::new(R::new())
    }
}

// ------------------------------------------------------------------------------------------
// generator: world histories

struct G<'a> {
    rng: Rng,
    w: &'a mut dyn Write,
}

/// (type, number of fields)
fn palette() -> Vec<(TypeId, usize)> {
    let mut v = vec![];
    for o in [snap_obj::PROJECTILE, snap_obj::LASER, snap_obj::PICKUP, snap_obj::FLAG, snap_obj::CHARACTER, snap_obj::PLAYER_INFO, snap_obj::EXPLOSION, snap_obj::SOUND_WORLD] {
        v.push((TypeId::Ordinal(o), snap_obj::obj_size(o).unwrap() as usize));
    }
    // UUID-typed objects: the sizes are found by probing the decoder
    for u in [snap_obj::DDNET_CHARACTER, snap_obj::DDNET_PLAYER, snap_obj::ENTITY_EX, snap_obj::MY_OWN_OBJECT, snap_obj::SPEC_CHAR] {
        for n in 0..40 {
            if make_obj(TypeId::Uuid(u), &vec![0; n]).is_some() {
                v.push((TypeId::Uuid(u), n));
                break;
            }
        }
    }
    v
}

impl<'a> G<'a> {
    fn line(&mut self, s: String) {
        writeln!(self.w, "{}", s).unwrap();
    }

    fn obj(&mut self, t: TypeId, n: usize, big: bool) -> Vec<i32> {
        for _ in 0..200 {
            let d: Vec<i32> = (0..n)
                .map(|_| {
                    if big {
                        self.rng.next() as i32
                    } else {
                        match self.rng.below(6) {
                            0 => 0,
                            1 => 1,
                            2 => self.rng.range(-5, 5) as i32,
                            3 => self.rng.range(0, 63) as i32,
                            4 => self.rng.range(-100000, 100000) as i32,
                            _ => self.rng.range(0, 10) as i32,
                        }
                    }
                })
                .collect();
            if let Some(o) = make_obj(t, &d) {
                return o.encode().to_vec();
            }
        }
        // all-zero fields decode for every type of the palette
        vec![0; n]
    }

    /// an object of this type with as many large random fields as the protocol crate accepts
    fn obj_big(&mut self, t: TypeId, n: usize) -> Vec<i32> {
        let mut d = vec![0i32; n];
        for i in 0..n {
            let old = d[i];
            d[i] = self.rng.next() as i32;
            if make_obj(t, &d).is_none() {
                d[i] = old;
            }
        }
        d
    }

    fn header(&mut self) {
        let sha = if self.rng.chance(1, 2) { "none".to_string() } else { format!("x32:{}", self.rng.below(100000)) };
        let k = if self.rng.chance(1, 2) { "c" } else { "s" };
        let map = if self.rng.chance(1, 2) { "-".to_string() } else { format!("g{}:{}", 1 + self.rng.below(300), self.rng.below(256)) };
        let crc = self.rng.below(1 << 32);
        let len = self.rng.below(100000);
        self.line(format!("new 302e362e34 {} {} {} {} {} 323032362d30392d3234 {}", to_hex(b"dm1"), sha, crc, k, len, map));
    }

    fn message(&mut self) {
        let n = *self.rng.pick(&[0usize, 1, 2, 3, 4, 5, 6, 7, 20, 21, 22, 23, 100]);
        let m: Vec<u8> = (0..n).map(|_| 32 + self.rng.below(224) as u8).collect();
        if self.rng.chance(1, 2) {
            self.line(format!("motd {}", to_hex(&m)));
        } else {
            let t = self.rng.range(-2, 3);
            let c = self.rng.range(-1, 127);
            self.line(format!("chat {} {} {}", t, c, to_hex(&m)));
        }
    }

    /// a world history: objects appear, change and vanish; ticks strictly increase over more than one
    /// key-frame interval; refused calls (low ticks, duplicate keys, over-long messages) in between
    fn history(&mut self, n_snaps: usize, faults: bool) {
        let pal = palette();
        self.header();
        let mut world: Vec<(TypeId, usize, u16, Vec<i32>)> = vec![];
        let mut tick: i64 = *self.rng.pick(&[0i64, 0, 1, 5, 1000, 2147483000]);
        for i in 0..n_snaps {
            if i > 0 {
                tick += *self.rng.pick(&[1i64, 1, 1, 2, 3, 5, 50, 100, 249, 250, 251, 252, 300, 31, 32, 33]);
            }
            if tick > i32::MAX as i64 {
                break;
            }
            // evolve the world
            let changes = self.rng.below(4);
            for _ in 0..changes {
                match self.rng.below(4) {
                    0 | 1 => {
                        let (t, n) = *self.rng.pick(&pal);
                        let id = self.rng.below(8) as u16;
                        if !world.iter().any(|(wt, _, wid, _)| *wt == t && *wid == id) {
                            let d = self.obj(t, n, false);
                            world.push((t, n, id, d));
                        }
                    }
                    2 => {
                        if !world.is_empty() {
                            let i = self.rng.below(world.len() as u64) as usize;
                            world.remove(i);
                        }
                    }
                    _ => {
                        if !world.is_empty() {
                            let i = self.rng.below(world.len() as u64) as usize;
                            let (t, n, _, _) = world[i];
                            world[i].3 = self.obj(t, n, false);
                        }
                    }
                }
            }
            if self.rng.chance(1, 12) {
                world.clear();
            }
            let mut order: Vec<usize> = (0..world.len()).collect();
            // iterator order is the caller's business
            for j in (1..order.len()).rev() {
                let k = self.rng.below(j as u64 + 1) as usize;
                order.swap(j, k);
            }
            let items: Vec<Item> = order.iter().map(|&j| (tid_text(world[j].0), world[j].2, world[j].3.clone())).collect();
            self.line(format!("snap {} {}", tick, items_text(&items)));
            if faults && self.rng.chance(1, 6) {
                match self.rng.below(5) {
                    0 => {
                        // the same tick again
                        self.line(format!("snap {} {}", tick, items_text(&items)));
                    }
                    1 => {
                        let t = tick - 1 - self.rng.below(300) as i64;
                        self.line(format!("snap {} -", t));
                    }
                    2 => {
                        // the same key twice
                        if let Some(it) = items.first() {
                            let dup = vec![it.clone(), it.clone()];
                            self.line(format!("snap {} {}", tick + 1, items_text(&dup)));
                        }
                    }
                    3 => {
                        self.line("motd n70000:5".to_string());
                    }
                    _ => {
                        let t = -1 - self.rng.below(5) as i64;
                        self.line(format!("snap {} -", t));
                    }
                }
            }
            let m = self.rng.below(3);
            for _ in 0..m {
                if self.rng.chance(1, 2) {
                    self.message();
                }
            }
            if self.rng.chance(1, 25) {
                self.line("read".to_string());
            }
        }
        self.line("read".to_string());
        self.line("last".to_string());
        if self.rng.chance(1, 3) {
            self.line("file".to_string());
        }
    }

    fn run(&mut self, tier: &str) {
        let thorough = tier == "thorough";
        let (n_hist, n_long) = if thorough { (400, 40) } else { (40, 4) };
        // deterministic boundary history: key frame at the start, deltas up to and including
        // +250, a key frame at +251
        self.line("new 302e36 646d31 none 1 s 0 32303236 -".to_string());
        self.line("snap 10 o3.1:1,2,3,4,5;o4.2:10,20,1,0".to_string());
        self.line("snap 11 o3.1:1,2,3,4,6;o4.2:10,20,1,0".to_string());
        self.line("motd 68656c6c6f".to_string());
        self.line("snap 260 o4.2:10,20,1,0".to_string());
        self.line("snap 261 -".to_string());
        self.line("snap 512 o3.7:9,9,9,9,9".to_string());
        self.line("chat 0 -1 6869".to_string());
        self.line("read".to_string());
        self.line("last".to_string());
        self.line("file".to_string());
        // every single-byte corruption and truncation of short recordings (objects of ordinal and UUID
        // types, key frame + deltas, messages): the reader must not panic
        for k in 0..(if thorough { 12 } else { 2 }) {
            self.line("new 302e36 646d31 none 1 s 0 32303236 -".to_string());
            self.line(format!("snap {} o3.1:1,2,3,4,5;u22ca938d13803e2b9e7bd2558ea6be11.6:-5,0", 10 + k));
            self.line(format!("snap {} o3.1:1,2,3,4,6;u22ca938d13803e2b9e7bd2558ea6be11.6:-5,0;u0dc77a02bfee3a53ac8e0bb0241bd722.6:{}", 11 + k, k));
            self.line("motd 68656c6c6f".to_string());
            self.line(format!("snap {} u0dc77a02bfee3a53ac8e0bb0241bd722.6:{};o4.2:10,20,1,0", 300 + k, k));
            self.line("chat 0 -1 6869".to_string());
            self.line(format!("snap {} -", 301 + k));
            self.line("mutall".to_string());
        }
        for _ in 0..n_hist {
            let n = 2 + self.rng.below(30) as usize;
            self.history(n, true);
        }
        for _ in 0..n_long {
            // long fault-free histories over several key-frame intervals
            let n = 120 + self.rng.below(200) as usize;
            self.history(n, false);
        }
        // snapshots around the limits of the 64 KiB packing buffer: objects with maximal-entropy fields
        for &(count, ty) in &[(840usize, snap_obj::CLIENT_INFO), (700, snap_obj::CLIENT_INFO), (300, snap_obj::CLIENT_INFO), (1000, snap_obj::LASER)] {
            let n = snap_obj::obj_size(ty).unwrap() as usize;
            self.header();
            self.line("snap 5 o4.2:10,20,1,0".to_string());
            let mut items: Vec<Item> = vec![];
            for id in 0..count as u16 {
                let d = self.obj_big(TypeId::Ordinal(ty), n);
                items.push((tid_text(TypeId::Ordinal(ty)), id, d));
            }
            let big = items_text(&items);
            // as a delta against the small snapshot, then (tick + 300) as a key frame
            self.line(format!("snap 6 {}", big));
            self.line("snap 7 o4.2:10,20,1,0".to_string());
            self.line(format!("snap 400 {}", big));
            self.line("snap 401 o4.3:10,20,1,0".to_string());
            self.line("read".to_string());
        }
        // messages around the limits of the message pipeline
        self.header();
        self.line("snap 5 -".to_string());
        self.line("motd n50000:7".to_string());
        self.line("motd n60000:7".to_string());
        self.line("motd n65533:7".to_string());
        self.line("motd n65534:7".to_string());
        self.line("snap 6 o4.2:10,20,1,0".to_string());
        self.line("read".to_string());
    }
}
