//! Domain `buffer`: the `libtw2-buffer` crate (`BufferRef`, `with_buffer`, the `Buffer` impls for
//! `&mut Vec<u8>`, `&mut ArrayVec<[u8; N]>`, `&mut [u8]`, `&mut &mut [u8]`, `&mut BufferRef`,
//! `CapAt`, and `ReadBuffer`).  Property C19.
//!
//! Stateful line protocol (model side: `lean/Tw/Drv/Buffer.lean`):
//!   new <vec|arr|slice|sref|raw> <cap> <oldhex> fresh container, starts a session (`raw`: a slice and a
//!                       counter owned by the harness, viewed through `BufferRef::new`; cannot be capped)
//!   open [c1 [c2]]      with_buffer(x.cap_at(c1).cap_at(c2), |b| …) on the container / innermost view
//!   w <hex>             b.write(..)
//!   xr <byte> <n>       b.extend(iter::repeat(byte).take(n))
//!   xp <hex>            b.extend(it) where `it` yields the bytes and then panics
//!   adv <n> <byte>      fill min(n, remaining) bytes of uninitialized_mut(), then b.advance(n)
//!   rem                 b.remaining()
//!   init | drop         the closure returns b.initialized() / returns without using the view
//!   setr <reader>       file <hex> (a real temp file) | slice <hex> | rep <byte> | empty | take <n> R | chain R R | bufr <cap> R | liar <n> <byte> | fail <byte>
//!   read [c1 [c2]]      reader.read_buffer(x.cap_at(c1).cap_at(c2))
//!   hash <kind> <cap> <oldhex> <L> / op / op …   all op sequences of length L over the alphabet
//!
//! The views are real `BufferRef`s inside real nested `with_buffer` closures: a session runs on its
//! own thread and receives its operations through a channel, so the harness needs no `unsafe` of its
//! own apart from the documented `unsafe fn`s of the crate (`advance`, `uninitialized_mut`), the
//! `ReadBufferMarker` impl of its test reader and one raw pointer to look at a `&mut &mut [u8]`
//! after the library narrowed it.
use crate::util::*;
use arrayvec::ArrayVec;
use libtw2_buffer::with_buffer;
use libtw2_buffer::Buffer;
use libtw2_buffer::BufferRef;
use libtw2_buffer::ReadBuffer;
use libtw2_buffer::ReadBufferMarker;
use std::io;
use std::io::Read;
use std::io::Write;
use std::sync::mpsc;

pub struct D;

pub fn domain() -> Box<dyn Domain> {
    Box::new(D)
}

// ---------------------------------------------------------------------------------------------
// operations

#[derive(Clone, Debug)]
enum RdrSpec {
    Slice(Vec<u8>),
    Rep(u8),
    Empty,
    Take(usize, Box<RdrSpec>),
    Chain(Box<RdrSpec>, Box<RdrSpec>),
    Liar(usize, u8),
    Fail(u8),
    BufR(usize, Box<RdrSpec>),
    File(Vec<u8>),
}

#[derive(Clone, Debug)]
enum Op {
    Write(Vec<u8>),
    ExtendRep(u8, usize),
    ExtendPanic(Vec<u8>),
    Advance(usize, u8),
    Remaining,
    Open(Vec<usize>),
    Init,
    Drop,
    SetR(RdrSpec),
    Read(Vec<usize>),
}

fn parse_byte(s: &str) -> Option<u8> {
    let v = parse_hex(s)?;
    if v.len() == 1 {
        Some(v[0])
    } else {
        None
    }
}

fn parse_usize(s: &str) -> Option<usize> {
    if s.is_empty() || !s.bytes().all(|c| c.is_ascii_digit()) {
        return None;
    }
    s.parse::<u64>().ok().map(|v| v as usize)
}

fn parse_rdr<'a>(fuel: usize, t: &'a [&'a str]) -> Option<(RdrSpec, &'a [&'a str])> {
    if fuel == 0 || t.is_empty() {
        return None;
    }
    match t[0] {
        "slice" if t.len() >= 2 => Some((RdrSpec::Slice(parse_hex(t[1])?), &t[2..])),
        "file" if t.len() >= 2 => Some((RdrSpec::File(parse_hex(t[1])?), &t[2..])),
        "rep" if t.len() >= 2 => Some((RdrSpec::Rep(parse_byte(t[1])?), &t[2..])),
        "empty" => Some((RdrSpec::Empty, &t[1..])),
        "liar" if t.len() >= 3 => Some((RdrSpec::Liar(parse_usize(t[1])?, parse_byte(t[2])?), &t[3..])),
        "fail" if t.len() >= 2 => Some((RdrSpec::Fail(parse_byte(t[1])?), &t[2..])),
        "take" if t.len() >= 2 => {
            let n = parse_usize(t[1])?;
            let (r, rest) = parse_rdr(fuel - 1, &t[2..])?;
            Some((RdrSpec::Take(n, Box::new(r)), rest))
        }
        "bufr" if t.len() >= 2 => {
            let n = parse_usize(t[1])?;
            if n > 4096 {
                return None;
            }
            let (r, rest) = parse_rdr(fuel - 1, &t[2..])?;
            Some((RdrSpec::BufR(n, Box::new(r)), rest))
        }
        "chain" => {
            let (a, rest) = parse_rdr(fuel - 1, &t[1..])?;
            let (b, rest) = parse_rdr(fuel - 1, rest)?;
            Some((RdrSpec::Chain(Box::new(a), Box::new(b)), rest))
        }
        _ => None,
    }
}

fn parse_caps(t: &[&str]) -> Option<Vec<usize>> {
    if t.len() > 2 {
        return None;
    }
    t.iter().map(|s| parse_usize(s)).collect()
}

fn parse_op(t: &[&str]) -> Option<Op> {
    if t.is_empty() {
        return None;
    }
    match (t[0], t.len()) {
        ("w", 2) => Some(Op::Write(parse_hex(t[1])?)),
        ("xr", 3) => Some(Op::ExtendRep(parse_byte(t[1])?, parse_usize(t[2])?)),
        ("xp", 2) => Some(Op::ExtendPanic(parse_hex(t[1])?)),
        ("adv", 3) => Some(Op::Advance(parse_usize(t[1])?, parse_byte(t[2])?)),
        ("rem", 1) => Some(Op::Remaining),
        ("open", _) => Some(Op::Open(parse_caps(&t[1..])?)),
        ("init", 1) => Some(Op::Init),
        ("drop", 1) => Some(Op::Drop),
        ("setr", _) => {
            let (r, rest) = parse_rdr(8, &t[1..])?;
            if rest.is_empty() {
                Some(Op::SetR(r))
            } else {
                None
            }
        }
        ("read", _) => Some(Op::Read(parse_caps(&t[1..])?)),
        _ => None,
    }
}

// ---------------------------------------------------------------------------------------------
// readers: the real std readers, wrapped so that one session can hold any of them

enum AnyRdr {
    Slice(Vec<u8>, usize),
    Rep(io::Repeat),
    Empty(io::Empty),
    Take(io::Take<Box<AnyRdr>>),
    Chain(io::Chain<Box<AnyRdr>, Box<AnyRdr>>),
    BufR(io::BufReader<Box<AnyRdr>>),
    /// a real file (unlinked temp file) with its contents and the position expected by the oracle
    File(std::fs::File, Vec<u8>, usize),
    /// `BufReader<File>` / `Take<File>`: the concrete std types the library marks itself
    BufFile(io::BufReader<std::fs::File>),
    TakeFile(io::Take<std::fs::File>),
    /// fills the whole buffer and claims to have read `.0` bytes
    Liar(usize, u8),
    /// fills the whole buffer and fails
    Fail(u8),
}

/// a regular file holding `data`, positioned at its start; the name is removed at once
fn temp_file(data: &[u8]) -> std::fs::File {
    use std::sync::atomic::{AtomicU64, Ordering};
    static SEQ: AtomicU64 = AtomicU64::new(0);
    let p = std::env::temp_dir().join(format!("tw-buffer-{}-{}.bin", std::process::id(), SEQ.fetch_add(1, Ordering::SeqCst)));
    std::fs::write(&p, data).expect("write temp file");
    let f = std::fs::File::open(&p).expect("open temp file");
    let _ = std::fs::remove_file(&p);
    f
}

fn build_rdr(s: &RdrSpec) -> AnyRdr {
    match s {
        RdrSpec::File(d) => AnyRdr::File(temp_file(d), d.clone(), 0),
        RdrSpec::BufR(n, r) if matches!(**r, RdrSpec::File(_)) => match &**r {
            RdrSpec::File(d) => AnyRdr::BufFile(io::BufReader::with_capacity(*n, temp_file(d))),
            _ => unreachable!(),
        },
        RdrSpec::Take(n, r) if matches!(**r, RdrSpec::File(_)) => match &**r {
            RdrSpec::File(d) => AnyRdr::TakeFile(temp_file(d).take(*n as u64)),
            _ => unreachable!(),
        },
        RdrSpec::Slice(d) => AnyRdr::Slice(d.clone(), 0),
        RdrSpec::Rep(b) => AnyRdr::Rep(io::repeat(*b)),
        RdrSpec::Empty => AnyRdr::Empty(io::empty()),
        RdrSpec::Take(n, r) => AnyRdr::Take(Box::new(build_rdr(r)).take(*n as u64)),
        RdrSpec::Chain(a, b) => AnyRdr::Chain(Box::new(build_rdr(a)).chain(Box::new(build_rdr(b)))),
        RdrSpec::Liar(c, f) => AnyRdr::Liar(*c, *f),
        RdrSpec::Fail(f) => AnyRdr::Fail(*f),
        RdrSpec::BufR(n, r) => AnyRdr::BufR(io::BufReader::with_capacity(*n, Box::new(build_rdr(r)))),
    }
}

fn has_liar(s: &RdrSpec) -> bool {
    match s {
        RdrSpec::Liar(..) => true,
        RdrSpec::Take(_, r) => has_liar(r),
        RdrSpec::Chain(a, b) => has_liar(a) || has_liar(b),
        RdrSpec::BufR(_, r) => has_liar(r),
        _ => false,
    }
}

impl Read for AnyRdr {
    fn read(&mut self, buf: &mut [u8]) -> io::Result<usize> {
        match self {
            AnyRdr::Slice(d, p) => {
                let mut r: &[u8] = &d[*p..];
                let n = r.read(buf)?;
                *p += n;
                Ok(n)
            }
            AnyRdr::Rep(r) => r.read(buf),
            AnyRdr::Empty(r) => r.read(buf),
            AnyRdr::Take(r) => r.read(buf),
            AnyRdr::Chain(r) => r.read(buf),
            AnyRdr::BufR(r) => r.read(buf),
            AnyRdr::File(f, _, p) => {
                let n = f.read(buf)?;
                *p += n;
                Ok(n)
            }
            AnyRdr::BufFile(r) => r.read(buf),
            AnyRdr::TakeFile(r) => r.read(buf),
            AnyRdr::Liar(c, f) => {
                LIAR_CALLED.with(|l| l.set(true));
                for b in buf.iter_mut() {
                    *b = *f;
                }
                Ok(*c)
            }
            AnyRdr::Fail(f) => {
                for b in buf.iter_mut() {
                    *b = *f;
                }
                Err(io::Error::new(io::ErrorKind::Other, "c19 failing reader"))
            }
        }
    }
}

// None of the wrapped readers looks at the buffer it is given.
unsafe impl ReadBufferMarker for AnyRdr {}

// ---------------------------------------------------------------------------------------------
// the interpreter

/// where operations come from and where responses go
trait Src {
    fn next(&mut self) -> Option<Op>;
    fn emit(&mut self, line: String, fails: &mut Vec<(String, String)>, counts: &mut Vec<(String, u64)>);
    /// A view's counter is beyond its capacity.  Returning from the closure would run the
    /// destructor of the intermediate object with that counter (`Vec::set_len` beyond the capacity:
    /// std's precondition check aborts the process).  Report what was found and never return: the
    /// session thread is parked for good and the container is leaked.
    fn corrupt(&mut self, fails: &mut Vec<(String, String)>, counts: &mut Vec<(String, u64)>) -> !;
}

fn park_forever() -> ! {
    loop {
        std::thread::park();
    }
}

/// what the property says the view must hold: capacity at creation and the bytes committed so far
struct Ghost {
    cap: usize,
    log: Vec<u8>,
}

#[derive(Clone, Copy, PartialEq)]
enum Phase {
    Idle,
    /// inside `to_buffer_ref` of a capped buffer; `exceeds`: some cap is larger than what is there
    Open { exceeds: bool },
    Advance { exceeds: bool },
    Iter,
    /// inside `read_buffer`; `exceeds` as for `Open`
    Read { exceeds: bool },
    /// inside `BufferRef::new`; `nonzero`: the caller's counter is not 0
    RawNew { nonzero: bool },
}

thread_local! {
    /// set when the lying test reader has been asked for bytes (a panic after that is its fault)
    static LIAR_CALLED: std::cell::Cell<bool> = std::cell::Cell::new(false);
}

struct Cx<'s> {
    src: &'s mut dyn Src,
    ghosts: Vec<Ghost>,
    rdr: AnyRdr,
    rdr_spec: RdrSpec,
    /// buffer sizes of the reads done with the current reader (to rebuild its state)
    read_sizes: Vec<usize>,
    phase: Phase,
    last_op: String,
    fails: Vec<(String, String)>,
    counts: Vec<(String, u64)>,
}

impl<'s> Cx<'s> {
    fn fail(&mut self, tag: &str, msg: String) {
        let m = format!("{} (after `{}`)", msg, self.last_op);
        self.fails.push((tag.to_string(), m));
    }
    fn count(&mut self, key: &str) {
        self.counts.push((key.to_string(), 1));
    }
    fn emit(&mut self, resp: &str, ctx: &str) {
        let line = format!("{} | {}", resp, ctx);
        self.src.emit(line, &mut self.fails, &mut self.counts);
    }
    fn next(&mut self) -> Option<Op> {
        let op = self.src.next();
        if let Some(ref o) = op {
            self.last_op = format!("{:?}", o);
        }
        op
    }
}

/// result of a finished view / of a `read_buffer`
struct Exit<'d> {
    /// `init <hex>`, `drop`, `read <hex>`, `readerr`; empty when the operations ran out
    resp: String,
    /// bytes the property says were committed through the view
    log: Vec<u8>,
    /// slices handed out by `initialized()` / `read_buffer`, with the bytes they showed then
    kept: Vec<(&'d [u8], Vec<u8>)>,
}

fn capped(avail: usize, caps: &[usize]) -> usize {
    caps.iter().fold(avail, |a, &c| a.min(c))
}

fn exceeds(avail: usize, caps: &[usize]) -> bool {
    let mut a = avail;
    for &c in caps {
        if c > a {
            return true;
        }
        a = c;
    }
    false
}

fn with_caps<'d, B: Buffer<'d>, R>(
    buf: B,
    caps: &[usize],
    f: impl for<'b> FnOnce(BufferRef<'d, 'b>) -> R,
) -> R {
    match caps {
        [] => with_buffer(buf, f),
        [a] => with_buffer(buf.cap_at(*a), f),
        [a, b] => with_buffer(buf.cap_at(*a).cap_at(*b), f),
        _ => unreachable!(),
    }
}

fn read_caps<'d, B: Buffer<'d>, T: ReadBuffer>(r: &mut T, buf: B, caps: &[usize]) -> io::Result<&'d [u8]> {
    match caps {
        [] => r.read_buffer(buf),
        [a] => r.read_buffer(buf.cap_at(*a)),
        [a, b] => r.read_buffer(buf.cap_at(*a).cap_at(*b)),
        _ => unreachable!(),
    }
}

fn check_kept(cx: &mut Cx, kept: &[(&[u8], Vec<u8>)]) {
    for (s, copy) in kept {
        if *s != &copy[..] {
            cx.fail(
                "C19/initialized-slice-changed",
                format!("a slice returned by initialized()/read_buffer showed {} and now shows {}", to_hex(copy), to_hex(s)),
            );
        }
    }
}

/// A reader that claims more than the room it was given must be refused by `advance`'s assert.
/// Look at that on a scratch slice first, through `BufferRef::new` with a counter the harness owns:
/// were the counter to move past the capacity, the real call would end in a destructor running
/// `set_len` beyond the capacity (std aborts the process there).
fn liar_probe(cx: &mut Cx, room: usize) {
    if has_liar(&cx.rdr_spec) {
        // a copy of the reader in its current state: rebuilt and fed the same sequence of reads
        let mut copy = build_rdr(&cx.rdr_spec);
        for &n in &cx.read_sizes {
            let mut tmp = vec![0u8; n];
            let _ = catch(|| copy.read(&mut tmp[..]).unwrap_or(0));
        }
        let mut scratch = vec![0u8; room];
        let mut counter = 0usize;
        let _ = catch(|| {
            let b = BufferRef::new(&mut scratch[..], &mut counter);
            unsafe { libtw2_buffer::read_buffer_ref(&mut copy, b) }.map(|s| s.len()).unwrap_or(0)
        });
        cx.count("liar_probes");
        if counter > room {
            cx.fail(
                "C19/advance-past-capacity",
                format!("a reader claiming more than the {} bytes it was given moved the counter to {}", room, counter),
            );
            cx.src.corrupt(&mut cx.fails, &mut cx.counts)
        }
    }
}

/// `reader.read_buffer(buf.cap_at(..))` with the session's reader; `avail` is what the property
/// says `buf` has room for
fn read_on<'d, B: Buffer<'d>>(buf: B, caps: &[usize], cx: &mut Cx, avail: usize) -> Exit<'d> {
    let room = capped(avail, caps);
    cx.phase = Phase::Read { exceeds: exceeds(avail, caps) };
    LIAR_CALLED.with(|l| l.set(false));
    // A reader that claims more than the room it was given must be refused by `advance`'s assert.
    // Look at that on a scratch slice first, through `BufferRef::new` with a counter the harness
    // owns: were the counter to move past the capacity, the real call would end in a destructor
    // running `set_len` beyond the capacity (std aborts the process there).
    liar_probe(cx, room);
    cx.read_sizes.push(room);
    // what an honest simple reader must deliver
    let expect: Option<Vec<u8>> = match &cx.rdr {
        AnyRdr::Slice(d, p) => Some(d[*p..(*p + room.min(d.len() - *p))].to_vec()),
        AnyRdr::Rep(_) => match cx.rdr_spec {
            RdrSpec::Rep(b) => Some(vec![b; room]),
            _ => None,
        },
        AnyRdr::Empty(_) => Some(vec![]),
        AnyRdr::File(_, d, p) => Some(d[*p..(*p + room.min(d.len() - *p))].to_vec()),
        _ => None,
    };
    // the library's own marker impls for `&[u8]`, `Repeat`, `Empty`; the wrapper for the rest
    let r = match &mut cx.rdr {
        AnyRdr::Slice(d, p) => {
            let mut s: &[u8] = &d[*p..];
            let r = read_caps(&mut s, buf, caps);
            *p = d.len() - s.len();
            r
        }
        AnyRdr::Rep(r) => read_caps(r, buf, caps),
        AnyRdr::Empty(r) => read_caps(r, buf, caps),
        // `fs::File`, `&fs::File`, `BufReader<File>`, `Take<File>`: the library's own marker impls
        AnyRdr::File(f, _, p) => {
            let r = if *p % 2 == 0 { read_caps(f, buf, caps) } else { read_caps(&mut &*f, buf, caps) };
            if let Ok(s) = &r {
                *p += s.len();
            }
            r
        }
        AnyRdr::BufFile(r) => read_caps(r, buf, caps),
        AnyRdr::TakeFile(r) => read_caps(r, buf, caps),
        other => read_caps(other, buf, caps),
    };
    cx.phase = Phase::Idle;
    match r {
        Ok(s) => {
            if s.len() > room {
                cx.fail("C19/read-past-capacity", format!("read_buffer returned {} bytes, room was {}", s.len(), room));
            }
            if let Some(e) = expect {
                if s != &e[..] {
                    cx.fail("C19/read-bytes-differ", format!("read_buffer returned {}, the reader delivered {}", to_hex(s), to_hex(&e)));
                }
            }
            cx.count("reads_ok");
            Exit { resp: format!("read {}", to_hex(s)), log: s.to_vec(), kept: vec![(s, s.to_vec())] }
        }
        Err(_) => {
            cx.count("reads_err");
            Exit { resp: "readerr".to_string(), log: vec![], kept: vec![] }
        }
    }
}

/// `reader.read_buffer_ref(b)` on a caller-owned `BufferRef` (the object-safe entry point)
fn raw_read<'d>(v: BufferRef<'d, '_>, cx: &mut Cx, avail: usize) -> Exit<'d> {
    use libtw2_buffer::ReadBufferRef;
    cx.phase = Phase::Read { exceeds: false };
    LIAR_CALLED.with(|l| l.set(false));
    liar_probe(cx, avail);
    cx.read_sizes.push(avail);
    let r = cx.rdr.read_buffer_ref(v);
    cx.phase = Phase::Idle;
    match r {
        Ok(s) => {
            if s.len() > avail {
                cx.fail("C19/read-past-capacity", format!("read_buffer_ref returned {} bytes, room was {}", s.len(), avail));
            }
            cx.count("reads_ok");
            Exit { resp: format!("read {}", to_hex(s)), log: s.to_vec(), kept: vec![(s, s.to_vec())] }
        }
        Err(_) => {
            cx.count("reads_err");
            Exit { resp: "readerr".to_string(), log: vec![], kept: vec![] }
        }
    }
}

fn open_on<'d, B: Buffer<'d>>(buf: B, caps: &[usize], cx: &mut Cx, avail: usize) -> Exit<'d> {
    let room = capped(avail, caps);
    cx.phase = Phase::Open { exceeds: exceeds(avail, caps) };
    with_caps(buf, caps, |v| view_loop(v, cx, room))
}

/// `remaining()`, or `None` when it panics (a counter beyond the capacity makes its subtraction
/// overflow); a panic that is caught here does not unwind through the destructors of the library
fn grem(v: &BufferRef) -> Option<usize> {
    catch(|| v.remaining()).ok()
}

fn ctx_view(depth: usize, v: &BufferRef) -> String {
    match grem(v) {
        Some(n) => format!("@{} rem={}", depth, n),
        None => format!("@{} rem=?", depth),
    }
}

fn view_loop<'d>(mut v: BufferRef<'d, '_>, cx: &mut Cx, room: usize) -> Exit<'d> {
    cx.phase = Phase::Idle;
    let mut kept: Vec<(&'d [u8], Vec<u8>)> = vec![];
    macro_rules! bail {
        ($pop:expr) => {{
            cx.fail("C19/counter-vs-capacity", "remaining() panicked: the counter is beyond the capacity".to_string());
            cx.src.corrupt(&mut cx.fails, &mut cx.counts)
        }};
    }
    macro_rules! rem {
        () => {
            match grem(&v) {
                Some(n) => n,
                None => bail!(true),
            }
        };
    }
    let cap0 = match grem(&v) {
        Some(n) => n,
        None => bail!(false),
    };
    if cap0 != room {
        cx.fail("C19/view-capacity", format!("new view has remaining()={}, expected min(available, caps)={}", cap0, room));
        if cap0 > room {
            // the view claims room the container does not have: a write through it would go past
            // the allocation — do not use it (and do not run the destructors)
            cx.src.corrupt(&mut cx.fails, &mut cx.counts)
        }
    }
    cx.ghosts.push(Ghost { cap: cap0, log: vec![] });
    let depth = cx.ghosts.len();
    cx.count(&format!("views_depth_{}", depth.min(4)));
    cx.emit("open", &ctx_view(depth, &v));
    loop {
        // the property's invariant: counter + remaining = capacity, counter = committed bytes
        {
            let now = rem!();
            let g = cx.ghosts.last().unwrap();
            let (gc, gl) = (g.cap, g.log.len());
            if gl > gc || now != gc - gl.min(gc) {
                cx.fail("C19/counter-vs-capacity", format!("capacity {}, committed {}, remaining() {}", gc, gl, now));
            }
        }
        let op = match cx.next() {
            Some(op) => op,
            None => {
                let g = cx.ghosts.pop().unwrap();
                return Exit { resp: String::new(), log: g.log, kept };
            }
        };
        match op {
            Op::Write(bs) => {
                let before = rem!();
                let r = v.write(&bs);
                let after = rem!();
                let fit = bs.len().min(before);
                if r.is_err() != (bs.len() > before) {
                    cx.fail("C19/write-error-iff-too-long", format!("write of {} bytes with {} remaining returned {:?}", bs.len(), before, r));
                }
                if before - after.min(before) != fit || after > before {
                    cx.fail("C19/write-commit-count", format!("write of {} bytes: remaining {} -> {}", bs.len(), before, after));
                }
                cx.ghosts.last_mut().unwrap().log.extend_from_slice(&bs[..fit]);
                cx.count(if r.is_ok() { "writes_ok" } else { "writes_err" });
                cx.emit(if r.is_ok() { "ok" } else { "cap" }, &ctx_view(depth, &v));
            }
            Op::ExtendRep(b, n) => {
                let before = rem!();
                let r = v.extend(std::iter::repeat(b).take(n));
                let after = rem!();
                let fit = n.min(before);
                if r.is_err() != (n > before) {
                    cx.fail("C19/write-error-iff-too-long", format!("extend of {} bytes with {} remaining returned {:?}", n, before, r));
                }
                if before - after.min(before) != fit || after > before {
                    cx.fail("C19/write-commit-count", format!("extend of {} bytes: remaining {} -> {}", n, before, after));
                }
                cx.ghosts.last_mut().unwrap().log.extend(std::iter::repeat(b).take(fit));
                cx.count(if r.is_ok() { "extends_ok" } else { "extends_err" });
                cx.emit(if r.is_ok() { "ok" } else { "cap" }, &ctx_view(depth, &v));
            }
            Op::ExtendPanic(bs) => {
                let before = rem!();
                let fit = bs.len().min(before);
                // the bytes are committed one by one before the iterator panics
                cx.ghosts.last_mut().unwrap().log.extend_from_slice(&bs[..fit]);
                cx.phase = Phase::Iter;
                let it = bs
                    .iter()
                    .cloned()
                    .chain(std::iter::from_fn(|| -> Option<u8> { panic!("c19 iterator panics") }));
                let r = v.extend(it);
                cx.phase = Phase::Idle;
                // only reached when the buffer was full before the iterator ended
                if r.is_ok() || bs.len() <= before {
                    cx.fail("C19/write-error-iff-too-long", format!("extend with a panicking iterator returned {:?}", r));
                }
                cx.count("extends_err");
                cx.emit("cap", &ctx_view(depth, &v));
            }
            Op::Advance(n, fill) => {
                let before = rem!();
                let k = n.min(before);
                unsafe {
                    let u = v.uninitialized_mut();
                    if u.len() != before {
                        cx.fail("C19/uninitialized-len", format!("uninitialized_mut().len()={} remaining()={}", u.len(), before));
                    }
                    for b in u[..k].iter_mut() {
                        *b = fill;
                    }
                }
                if n <= before {
                    cx.ghosts.last_mut().unwrap().log.extend(std::iter::repeat(fill).take(n));
                }
                cx.phase = Phase::Advance { exceeds: n > before };
                unsafe { v.advance(n) };
                cx.phase = Phase::Idle;
                if n > before {
                    cx.fail("C19/advance-past-capacity", format!("advance({}) with {} remaining returned", n, before));
                }
                cx.count("advances_ok");
                cx.emit("done", &ctx_view(depth, &v));
            }
            Op::Remaining => {
                let r = rem!();
                cx.emit(&format!("{}", r), &ctx_view(depth, &v));
            }
            Op::SetR(spec) => {
                cx.rdr = build_rdr(&spec);
                cx.rdr_spec = spec;
                cx.read_sizes.clear();
                cx.emit("done", &ctx_view(depth, &v));
            }
            Op::Open(caps) => {
                let before = rem!();
                let ex = open_on(&mut v, &caps, cx, before);
                child_done(cx, &v, before, &ex);
                kept.extend(ex.kept);
                if !ex.resp.is_empty() {
                    cx.emit(&ex.resp, &ctx_view(depth, &v));
                }
            }
            Op::Read(caps) => {
                let before = rem!();
                let ex = read_on(&mut v, &caps, cx, before);
                child_done(cx, &v, before, &ex);
                kept.extend(ex.kept);
                cx.emit(&ex.resp, &ctx_view(depth, &v));
            }
            Op::Init => {
                let s: &'d [u8] = v.initialized();
                let g = cx.ghosts.pop().unwrap();
                if s != &g.log[..] {
                    cx.fail("C19/initialized-equals-writes", format!("initialized()={} but the committed writes are {}", to_hex(s), to_hex(&g.log)));
                }
                check_kept(cx, &kept);
                cx.count("inits");
                kept.push((s, s.to_vec()));
                return Exit { resp: format!("init {}", to_hex(s)), log: g.log, kept };
            }
            Op::Drop => {
                let g = cx.ghosts.pop().unwrap();
                check_kept(cx, &kept);
                cx.count("drops");
                return Exit { resp: "drop".to_string(), log: g.log, kept };
            }
        }
    }
}

/// after a nested view / nested read was released: the parent's counter moved by exactly the
/// child's committed bytes
fn child_done(cx: &mut Cx, v: &BufferRef, before: usize, ex: &Exit) {
    let after = grem(v);
    if ex.log.len() > before || after != Some(before - ex.log.len().min(before)) {
        cx.fail("C19/nested-count", format!("child committed {} bytes, parent remaining {} -> {:?}", ex.log.len(), before, after));
    }
    cx.ghosts.last_mut().unwrap().log.extend_from_slice(&ex.log);
    check_kept(cx, &ex.kept);
}

// ---------------------------------------------------------------------------------------------
// containers

macro_rules! arrs {
    ($($n:literal $v:ident),*) => {
        enum Arr { $($v(ArrayVec<[u8; $n]>)),* }
        impl Arr {
            fn new(cap: usize, old: &[u8]) -> Option<Arr> {
                match cap {
                    $($n => { let mut a = ArrayVec::<[u8; $n]>::new(); for &b in old { a.push(b); } Some(Arr::$v(a)) })*
                    _ => None,
                }
            }
            fn contents(&self) -> &[u8] { match self { $(Arr::$v(a) => &a[..]),* } }
            fn capacity(&self) -> usize { match self { $(Arr::$v(a) => a.capacity()),* } }
            fn probe(&mut self) -> Option<usize> {
                match self { $(Arr::$v(a) => catch(|| with_buffer(&mut *a, |b| b.remaining())).ok()),* }
            }
            fn act<'d>(&'d mut self, act: &Act, cx: &mut Cx, avail: usize) -> Exit<'d> {
                match self { $(Arr::$v(a) => act_on(a, act, cx, avail)),* }
            }
        }
    };
}
arrs!(0 A0, 1 A1, 2 A2, 3 A3, 4 A4, 5 A5, 6 A6, 7 A7, 8 A8, 16 A16, 32 A32);
const ARR_CAPS: [usize; 11] = [0, 1, 2, 3, 4, 5, 6, 7, 8, 16, 32];

enum Act {
    Open(Vec<usize>),
    Read(Vec<usize>),
}

fn act_on<'d, B: Buffer<'d>>(buf: B, act: &Act, cx: &mut Cx, avail: usize) -> Exit<'d> {
    match act {
        Act::Open(caps) => open_on(buf, caps, cx, avail),
        Act::Read(caps) => read_on(buf, caps, cx, avail),
    }
}

const CANARY: [u8; 8] = [0xc5; 8];

enum Store {
    Vec(Vec<u8>),
    Arr(Arr),
    /// backing bytes followed by a canary; the slice handed out is `back[..n]`
    Slice(Vec<u8>, usize),
    /// the same for `&mut &mut [u8]`; `.1` is the current length of the (narrowed) slice
    SRef(Vec<u8>, usize),
    /// `BufferRef::new(&mut back[..n], &mut counter)`: `.1` = n, `.2` = the caller-owned counter
    Raw(Vec<u8>, usize, usize),
}

#[derive(Clone, Debug)]
struct StoreSpec {
    kind: String,
    cap: usize,
    old: Vec<u8>,
}

fn parse_store(k: &str, c: &str, o: &str) -> Option<StoreSpec> {
    let cap = parse_usize(c)?;
    let old = parse_hex(o)?;
    if cap > 4096 {
        return None;
    }
    match k {
        "vec" if old.len() <= cap => {}
        "arr" if old.len() <= cap && ARR_CAPS.contains(&cap) => {}
        "slice" | "sref" | "raw" if old.len() == cap => {}
        _ => return None,
    }
    Some(StoreSpec { kind: k.to_string(), cap, old })
}

impl Store {
    fn new(s: &StoreSpec) -> Store {
        match &s.kind[..] {
            "vec" => {
                let mut v = Vec::with_capacity(s.cap);
                v.extend_from_slice(&s.old);
                Store::Vec(v)
            }
            "arr" => Store::Arr(Arr::new(s.cap, &s.old).unwrap()),
            "slice" => {
                let mut b = s.old.clone();
                b.extend_from_slice(&CANARY);
                Store::Slice(b, s.cap)
            }
            "raw" => {
                let mut b = s.old.clone();
                b.extend_from_slice(&CANARY);
                Store::Raw(b, s.cap, 0)
            }
            _ => {
                let mut b = s.old.clone();
                b.extend_from_slice(&CANARY);
                Store::SRef(b, s.cap)
            }
        }
    }
    fn contents(&self) -> &[u8] {
        match self {
            Store::Vec(v) => &v[..],
            Store::Arr(a) => a.contents(),
            Store::Slice(b, n) => &b[..*n],
            Store::SRef(b, n) => &b[..*n],
            Store::Raw(b, n, c) => &b[..(*c).min(*n)],
        }
    }
    /// room a new top-level view has according to the property
    fn avail(&self) -> usize {
        match self {
            Store::Vec(v) => v.capacity() - v.len(),
            Store::Arr(a) => a.capacity() - a.contents().len(),
            Store::Slice(_, n) => *n,
            Store::SRef(_, n) => *n,
            Store::Raw(_, n, c) => *n - (*c).min(*n),
        }
    }
    /// `remaining()` of a fresh outermost view that is dropped unused (its destructor adds 0):
    /// lets the harness see an over-sized view before anything is written through it
    fn probe_room(&mut self) -> Option<usize> {
        match self {
            Store::Vec(v) => catch(|| with_buffer(&mut *v, |b| b.remaining())).ok(),
            Store::Arr(a) => a.probe(),
            Store::Slice(b, n) => catch(|| with_buffer(&mut b[..*n], |b| b.remaining())).ok(),
            Store::SRef(b, n) => {
                // on a temporary reference: the narrowing to 0 bytes hits only the temporary
                let mut s: &mut [u8] = &mut b[..*n];
                let p: *mut &mut [u8] = &mut s;
                catch(|| with_buffer(unsafe { &mut *p }, |b| b.remaining())).ok()
            }
            Store::Raw(b, n, c) => {
                if *c != 0 {
                    return Some(*n - (*c).min(*n));
                }
                let mut tmp = 0usize;
                catch(|| BufferRef::new(&mut b[..*n], &mut tmp).remaining()).ok()
            }
        }
    }
    fn ctx(&self) -> String {
        let c = self.contents();
        format!("@0 len={} data={}", c.len(), to_hex(c))
    }
    /// runs `act` on the container under `catch_unwind`; returns the response and the bytes the
    /// property says were committed
    fn act(&mut self, act: &Act, cx: &mut Cx) -> (String, Vec<u8>) {
        let avail = self.avail();
        let finish = |cx: &mut Cx, r: Result<Exit, String>| -> (String, Vec<u8>) {
            match r {
                Ok(ex) => {
                    check_kept(cx, &ex.kept);
                    (ex.resp, ex.log)
                }
                Err(msg) => {
                    let allowed = match cx.phase {
                        Phase::Advance { exceeds } => exceeds,
                        Phase::Iter => msg.contains("c19 iterator panics"),
                        Phase::RawNew { nonzero } => nonzero,
                        Phase::Read { exceeds } => {
                            let liar = LIAR_CALLED.with(|l| l.get());
                            if !liar && exceeds {
                                cx.fail("C19/cap-at-panics", format!("cap_at with an index beyond the capacity panicked: {}", msg));
                            }
                            liar || exceeds
                        }
                        Phase::Open { exceeds: true } => {
                            cx.fail("C19/cap-at-panics", format!("cap_at with an index beyond the capacity panicked: {}", msg));
                            true
                        }
                        _ => false,
                    };
                    if !allowed {
                        cx.fail("C19/unexpected-panic", format!("panic: {}", msg));
                    }
                    cx.phase = Phase::Idle;
                    cx.count("panics");
                    // unwinding released every live view: child counters were added to the parents
                    let mut log = vec![];
                    for g in cx.ghosts.drain(..) {
                        log.extend_from_slice(&g.log);
                    }
                    ("panic".to_string(), log)
                }
            }
        };
        match self {
            Store::Vec(v) => {
                let r = catch(|| act_on(&mut *v, act, cx, avail));
                finish(cx, r)
            }
            Store::Arr(a) => {
                let r = catch(|| a.act(act, cx, avail));
                finish(cx, r)
            }
            Store::Slice(b, n) => {
                let r = catch(|| act_on(&mut b[..*n], act, cx, avail));
                finish(cx, r)
            }
            Store::Raw(b, n, c) => {
                let nonzero = *c != 0;
                let r = catch(|| {
                    // `debug_assert!(*initialized == 0)`: a counter that is not 0 is refused
                    cx.phase = Phase::RawNew { nonzero };
                    let v = BufferRef::new(&mut b[..*n], &mut *c);
                    match act {
                        Act::Open(_) => view_loop(v, cx, avail),
                        Act::Read(_) => raw_read(v, cx, avail),
                    }
                });
                if r.is_ok() && nonzero {
                    cx.fail("C19/raw-counter-not-zero", "BufferRef::new accepted a counter that is not 0".to_string());
                }
                finish(cx, r)
            }
            Store::SRef(b, n) => {
                let base = b.as_ptr();
                let mut s: &mut [u8] = &mut b[..*n];
                // `&'d mut &'d mut [u8]` borrows `s` for its whole life; look at it through a raw
                // pointer afterwards to see the narrowing done by `Drop for SliceRefBuffer`
                let p: *mut &mut [u8] = &mut s;
                let r = catch(|| act_on(unsafe { &mut *p }, act, cx, avail));
                let out = finish(cx, r);
                let (new_ptr, new_len) = unsafe {
                    let cur: &[u8] = &**p;
                    (cur.as_ptr(), cur.len())
                };
                if new_ptr != base || new_len > *n {
                    cx.fail("C19/slice-ref-narrowing", format!("slice reference moved or grew: len {} -> {}", *n, new_len));
                }
                *n = new_len.min(*n);
                out
            }
        }
    }
}

fn store_loop(spec: &StoreSpec, src: &mut dyn Src, announce: bool) {
    let mut store = Store::new(spec);
    let mut cx = Cx {
        src,
        ghosts: vec![],
        rdr: AnyRdr::Empty(io::empty()),
        rdr_spec: RdrSpec::Empty,
        read_sizes: vec![],
        phase: Phase::Idle,
        last_op: "new".to_string(),
        fails: vec![],
        counts: vec![],
    };
    if spec.kind == "vec" && store.avail() != spec.cap - spec.old.len() {
        cx.fail("C19/harness-capacity", format!("Vec::with_capacity({}) gave spare capacity {}", spec.cap, store.avail()));
    }
    if announce {
        cx.emit("ok", &store.ctx());
    }
    loop {
        let op = match cx.next() {
            Some(op) => op,
            None => break,
        };
        match op {
            Op::Open(caps) | Op::Read(caps) if spec.kind == "raw" && !caps.is_empty() => {
                let _ = caps;
                cx.emit("bad-op", &store.ctx())
            }
            Op::Open(caps) => store_act(&mut store, &Act::Open(caps), &mut cx, spec),
            Op::Read(caps) => store_act(&mut store, &Act::Read(caps), &mut cx, spec),
            Op::SetR(s) => {
                cx.rdr = build_rdr(&s);
                cx.rdr_spec = s;
                cx.read_sizes.clear();
                cx.emit("done", &store.ctx());
            }
            _ => cx.emit("bad-op", &store.ctx()),
        }
    }
    // end of the operations: every closure has returned
    let ctx = store.ctx();
    cx.src.emit(ctx, &mut cx.fails, &mut cx.counts);
}

/// one top-level `with_buffer` / `read_buffer` and the property's statements about the container
fn store_act(store: &mut Store, act: &Act, cx: &mut Cx, spec: &StoreSpec) {
    let old = store.contents().to_vec();
    let avail = store.avail();
    let probed = store.probe_room();
    if probed != Some(avail) {
        cx.fail("C19/view-capacity", format!("a fresh view of the container has remaining()={:?}, the container has room for {}", probed, avail));
        if probed.map(|p| p > avail).unwrap_or(false) {
            // writes through such a view would go past the allocation
            cx.src.corrupt(&mut cx.fails, &mut cx.counts)
        }
    }
    let (resp, log) = store.act(act, cx);
    if let Store::Vec(v) = store {
        if v.len() > v.capacity() {
            cx.fail("C19/write-past-capacity", format!("the vector's length {} exceeds its capacity {}", v.len(), v.capacity()));
            unsafe { v.set_len(v.capacity()) };
        }
    }
    let new = store.contents().to_vec();
    if log.len() > avail {
        cx.fail("C19/write-past-capacity", format!("{} bytes committed, capacity was {}", log.len(), avail));
    }
    match store {
        Store::Vec(_) | Store::Arr(_) => {
            if new.len() != old.len() + log.len() {
                cx.fail("C19/length-grows-by-initialized", format!("length {} -> {}, {} bytes were committed", old.len(), new.len(), log.len()));
            } else if new[..old.len()] != old[..] || new[old.len()..] != log[..] {
                cx.fail("C19/contents-old-plus-initialized", format!("old {} + committed {} but contents {}", to_hex(&old), to_hex(&log), to_hex(&new)));
            }
            let cap_now = match store {
                Store::Vec(v) => v.capacity(),
                Store::Arr(a) => a.capacity(),
                _ => 0,
            };
            if cap_now != spec.cap {
                cx.fail("C19/capacity-changed", format!("capacity {} -> {}", spec.cap, cap_now));
            }
        }
        Store::Slice(b, n) => {
            if new.len() != old.len() || new.len() < log.len() || new[..log.len().min(new.len())] != log[..log.len().min(new.len())] {
                cx.fail("C19/contents-old-plus-initialized", format!("slice {} after committing {}", to_hex(&new), to_hex(&log)));
            }
            if b[*n..] != CANARY {
                cx.fail("C19/write-past-capacity", "bytes after the end of the slice changed".to_string());
            }
            // a capped top-level view must not touch anything beyond the cap
            {
                let (Act::Open(caps) | Act::Read(caps)) = act;
                let room = capped(avail, caps);
                if new.len() == old.len() && new[room..] != old[room..] {
                    cx.fail("C19/write-past-capacity", format!("bytes beyond cap {} changed: {} -> {}", room, to_hex(&old), to_hex(&new)));
                }
            }
        }
        Store::Raw(b, n, c) => {
            if *c > *n {
                cx.fail("C19/write-past-capacity", format!("the caller's counter {} exceeds the slice length {}", c, n));
            }
            if new.len() != old.len() + log.len() {
                cx.fail("C19/length-grows-by-initialized", format!("counter {} -> {}, {} bytes were committed", old.len(), new.len(), log.len()));
            } else if new[..old.len()] != old[..] || new[old.len()..] != log[..] {
                cx.fail("C19/contents-old-plus-initialized", format!("old {} + committed {} but contents {}", to_hex(&old), to_hex(&log), to_hex(&new)));
            }
            if b[*n..] != CANARY {
                cx.fail("C19/write-past-capacity", "bytes after the end of the slice changed".to_string());
            }
        }
        Store::SRef(b, _) => {
            if new[..] != log[..] {
                cx.fail("C19/length-grows-by-initialized", format!("slice reference now {} but committed {}", to_hex(&new), to_hex(&log)));
            }
            if b[spec.cap..] != CANARY {
                cx.fail("C19/write-past-capacity", "bytes after the end of the slice changed".to_string());
            }
        }
    }
    cx.count("releases");
    // "" = the operations ran out inside the view; the final context line follows
    if !resp.is_empty() {
        cx.emit(&resp, &store.ctx());
    }
}

// ---------------------------------------------------------------------------------------------
// sources

/// hash form: operations from a vector, responses folded into FNV-1a
struct VecSrc<'a> {
    ops: Vec<&'a Op>,
    pos: usize,
    h: u64,
    fails: Vec<(String, String)>,
    counts: Vec<(String, u64)>,
    /// where the sweep reports when it has to stop for good
    done: mpsc::Sender<HashDone>,
}

struct HashDone {
    h: Option<u64>,
    fails: Vec<(String, String)>,
    counts: Vec<(String, u64)>,
}

impl<'a> Src for VecSrc<'a> {
    fn next(&mut self) -> Option<Op> {
        let o = self.ops.get(self.pos).map(|o| (*o).clone());
        self.pos += 1;
        o
    }
    fn emit(&mut self, line: String, fails: &mut Vec<(String, String)>, counts: &mut Vec<(String, u64)>) {
        self.h = fnv_byte(fnv_bytes(self.h, line.as_bytes()), 10);
        self.fails.append(fails);
        self.counts.append(counts);
    }
    fn corrupt(&mut self, fails: &mut Vec<(String, String)>, counts: &mut Vec<(String, u64)>) -> ! {
        self.fails.append(fails);
        self.counts.append(counts);
        let _ = self.done.send(HashDone {
            h: None,
            fails: std::mem::take(&mut self.fails),
            counts: std::mem::take(&mut self.counts),
        });
        park_forever()
    }
}

struct Reply {
    /// the session thread has parked itself for good (see `Src::corrupt`)
    leaked: bool,
    line: String,
    fails: Vec<(String, String)>,
    counts: Vec<(String, u64)>,
}

/// line form: the session thread's end of the channels
struct ChanSrc {
    rx: mpsc::Receiver<Op>,
    tx: mpsc::Sender<Reply>,
}

impl Src for ChanSrc {
    fn next(&mut self) -> Option<Op> {
        self.rx.recv().ok()
    }
    fn emit(&mut self, line: String, fails: &mut Vec<(String, String)>, counts: &mut Vec<(String, u64)>) {
        let _ = self.tx.send(Reply {
            leaked: false,
            line,
            fails: std::mem::take(fails),
            counts: std::mem::take(counts),
        });
    }
    fn corrupt(&mut self, fails: &mut Vec<(String, String)>, counts: &mut Vec<(String, u64)>) -> ! {
        let _ = self.tx.send(Reply {
            leaked: true,
            line: "corrupt".to_string(),
            fails: std::mem::take(fails),
            counts: std::mem::take(counts),
        });
        park_forever()
    }
}

struct Session {
    tx: Option<mpsc::Sender<Op>>,
    rx: mpsc::Receiver<Reply>,
    join: Option<std::thread::JoinHandle<()>>,
}

impl Session {
    fn start(spec: StoreSpec) -> Session {
        let (tx, orx) = mpsc::channel::<Op>();
        let (rtx, rx) = mpsc::channel::<Reply>();
        let join = std::thread::spawn(move || {
            let mut src = ChanSrc { rx: orx, tx: rtx };
            store_loop(&spec, &mut src, true);
        });
        Session { tx: Some(tx), rx, join: Some(join) }
    }
    /// ends the session; returns what the session thread still reported
    fn close(&mut self) -> Vec<Reply> {
        self.tx = None; // the session thread sees the end of its operations and unwinds normally
        let mut rest = vec![];
        if self.join.is_none() {
            return rest;
        }
        // wait until the thread has finished (its sender is dropped) or has parked itself for good
        loop {
            match self.rx.recv() {
                Ok(r) => {
                    let leaked = r.leaked;
                    rest.push(r);
                    if leaked {
                        self.detach();
                        return rest;
                    }
                }
                Err(_) => break,
            }
        }
        if let Some(j) = self.join.take() {
            let _ = j.join();
        }
        rest
    }
    /// the session thread is parked for good: do not wait for it
    fn detach(&mut self) {
        self.join = None;
        self.tx = None;
    }
}

impl Drop for Session {
    fn drop(&mut self) {
        self.close();
    }
}

pub struct R {
    sess: Option<Session>,
}

fn absorb(o: &mut Oracle, fails: Vec<(String, String)>, counts: Vec<(String, u64)>) {
    for (t, m) in fails {
        o.fail(&t, m);
    }
    for (k, n) in counts {
        o.add(&k, n);
    }
}

fn hash_all(spec: &StoreSpec, alpha: &[Op], len: usize, o: &mut Oracle) -> Option<u64> {
    let (tx, rx) = mpsc::channel::<HashDone>();
    let spec = spec.clone();
    let alpha: Vec<Op> = alpha.to_vec();
    let a = alpha.len();
    let total = a.pow(len as u32);
    // on its own thread, so that a sweep that meets a corrupt counter can stop for good
    let j = std::thread::spawn(move || {
        let mut h = FNV_OFFSET;
        let mut fails = vec![];
        let mut counts = vec![];
        for i in 0..total {
            let mut k = i;
            let mut ops = Vec::with_capacity(len);
            for _ in 0..len {
                ops.push(&alpha[k % a]);
                k /= a;
            }
            let mut src = VecSrc { ops, pos: 0, h, fails, counts, done: tx.clone() };
            store_loop(&spec, &mut src, false);
            h = src.h;
            fails = src.fails;
            counts = src.counts;
            // keep the counters small
            if counts.len() > 4096 {
                let mut m = std::collections::BTreeMap::new();
                for (k, n) in counts.drain(..) {
                    *m.entry(k).or_insert(0u64) += n;
                }
                counts = m.into_iter().collect();
            }
        }
        let _ = tx.send(HashDone { h: Some(h), fails, counts });
    });
    let r = rx.recv().ok();
    let h = match r {
        Some(d) => {
            absorb(o, d.fails, d.counts);
            if d.h.is_some() {
                let _ = j.join();
            }
            d.h
        }
        None => None,
    };
    o.add("sessions_swept", total as u64);
    h
}

impl Runner for R {
    fn run(&mut self, t: &[&str], o: &mut Oracle) -> String {
        if t[0] == "new" {
            if let Some(mut s) = self.sess.take() {
                for r in s.close() {
                    absorb(o, r.fails, r.counts);
                }
            }
            let spec = if t.len() == 4 { parse_store(t[1], t[2], t[3]) } else { None };
            let spec = match spec {
                Some(s) => s,
                None => return "bad-op".to_string(),
            };
            o.count(&format!("sessions_{}", spec.kind));
            let s = Session::start(spec);
            let line = match s.rx.recv() {
                Ok(r) => {
                    absorb(o, r.fails, r.counts);
                    r.line
                }
                Err(_) => "dead".to_string(),
            };
            self.sess = Some(s);
            return line;
        }
        if t[0] == "hash" {
            if t.len() < 6 {
                return "bad-op".to_string();
            }
            let spec = parse_store(t[1], t[2], t[3]);
            let len = parse_usize(t[4]);
            let ops: Option<Vec<Op>> = t[5..]
                .split(|x| *x == "/")
                .filter(|g| !g.is_empty())
                .map(|g| parse_op(g))
                .collect();
            return match (spec, len, ops) {
                (Some(spec), Some(len), Some(ops)) if !ops.is_empty() && len <= 8 => {
                    match hash_all(&spec, &ops, len, o) {
                        Some(h) => format!("h {}", h),
                        None => "corrupt".to_string(),
                    }
                }
                _ => "bad-op".to_string(),
            };
        }
        let op = parse_op(t);
        match (&mut self.sess, op) {
            (Some(s), Some(op)) => {
                if s.tx.as_ref().map(|tx| tx.send(op).is_err()).unwrap_or(true) {
                    return "dead".to_string();
                }
                match s.rx.recv() {
                    Ok(r) => {
                        absorb(o, r.fails, r.counts);
                        if r.leaked {
                            s.detach();
                        }
                        r.line
                    }
                    Err(_) => "dead".to_string(),
                }
            }
            _ => "bad-op".to_string(),
        }
    }
}

// ---------------------------------------------------------------------------------------------
// generator

const KINDS: [&str; 5] = ["vec", "arr", "slice", "sref", "raw"];

/// kinds whose capacity is the length of the given bytes
fn is_slicey(kind: &str) -> bool {
    kind == "slice" || kind == "sref" || kind == "raw"
}

fn pat(n: usize, start: u8) -> Vec<u8> {
    (0..n).map(|i| start.wrapping_add(i as u8)).collect()
}

fn new_line(out: &mut dyn Write, kind: &str, cap: usize, len: usize) {
    let len = if is_slicey(kind) { cap } else { len.min(cap) };
    writeln!(out, "new {} {} {}", kind, cap, to_hex(&pat(len, 0xa0))).unwrap();
}

fn rdr_str(r: &mut Rng, depth: usize) -> String {
    let k = if depth >= 2 { r.below(5) } else { r.below(9) };
    match k {
        0 => {
            let n = r.below(12) as usize;
            format!("slice {}", to_hex(&r.bytes(n)))
        }
        1 => {
            let n = r.below(12) as usize;
            let f = format!("file {}", to_hex(&r.bytes(n)));
            match r.below(3) {
                0 => f,
                1 => format!("bufr {} {}", r.below(6), f),
                _ => format!("take {} {}", r.below(9), f),
            }
        }
        2 => format!("rep {:02x}", r.below(256)),
        3 => "empty".to_string(),
        4 => format!("fail {:02x}", r.below(256)),
        5 | 6 => format!("take {} {}", r.below(10), rdr_str(r, depth + 1)),
        7 => {
            if r.chance(1, 2) {
                format!("chain {} {}", rdr_str(r, depth + 1), rdr_str(r, depth + 1))
            } else {
                // no over-claiming reader inside a BufReader (std's cursor refuses it in its own way)
                let inner = match r.below(4) {
                    0 => "rep 3c".to_string(),
                    1 => format!("take {} rep 3d", r.below(9)),
                    2 => {
                        let n = r.below(14) as usize;
                        format!("chain slice {} fail 3e", to_hex(&r.bytes(n)))
                    }
                    _ => {
                        let n = r.below(14) as usize;
                        format!("slice {}", to_hex(&r.bytes(n)))
                    }
                };
                format!("bufr {} {}", r.below(7), inner)
            }
        }
        _ => format!("liar {} {:02x}", r.below(12), r.below(256)),
    }
}

fn caps_str(r: &mut Rng, rem: usize) -> (String, usize) {
    let n = match r.below(10) {
        0..=4 => 0,
        5..=8 => 1,
        _ => 2,
    };
    let mut s = String::new();
    let mut room = rem;
    for _ in 0..n {
        let c = match r.below(8) {
            0 => 0,
            1 => room,
            2 => room + 1,
            3 => room.saturating_sub(1),
            4 => usize::MAX,
            _ => r.below(room as u64 + 3) as usize,
        };
        s.push_str(&format!(" {}", c));
        room = room.min(c);
    }
    (s, room)
}

/// one random session; a rough shadow of the remaining room steers the sizes to the boundaries
fn random_session(r: &mut Rng, out: &mut dyn Write, max_cap: usize, nops: usize) {
    let kind = *r.pick(&KINDS);
    let cap = if kind == "arr" { *r.pick(&ARR_CAPS[..]).min(&max_cap.max(8)) } else { r.below(max_cap as u64 + 1) as usize };
    let len = r.below(cap as u64 + 1) as usize;
    new_line(out, kind, cap, len);
    let mut store_room = if is_slicey(kind) { cap } else { cap - len.min(cap) };
    let mut rooms: Vec<usize> = vec![];
    for _ in 0..nops {
        let depth = rooms.len();
        if depth == 0 {
            match r.below(10) {
                0..=5 => {
                    let (c, room) = caps_str(r, store_room);
                    writeln!(out, "open{}", c).unwrap();
                    rooms.push(room);
                }
                6 | 7 => {
                    writeln!(out, "setr {}", rdr_str(r, 0)).unwrap();
                }
                8 => {
                    let (c, _) = caps_str(r, store_room);
                    writeln!(out, "read{}", c).unwrap();
                }
                _ => writeln!(out, "rem").unwrap(),
            }
            continue;
        }
        let room = *rooms.last().unwrap();
        let size = |r: &mut Rng| -> usize {
            match r.below(8) {
                0 => 0,
                1 => 1,
                2 => room,
                3 => room + 1,
                4 => room.saturating_sub(1),
                _ => r.below(room as u64 + 2) as usize,
            }
        };
        match r.below(24) {
            0..=7 => {
                let n = size(r);
                writeln!(out, "w {}", to_hex(&r.bytes(n))).unwrap();
                let l = rooms.last_mut().unwrap();
                *l -= n.min(*l);
            }
            8 => {
                let n = if r.chance(1, 4) { usize::MAX } else { size(r) };
                writeln!(out, "xr {:02x} {}", r.below(256), n).unwrap();
                let l = rooms.last_mut().unwrap();
                *l -= n.min(*l);
            }
            9 => {
                if r.chance(1, 3) {
                    let n = r.below(room as u64 + 1) as usize;
                    writeln!(out, "xp {}", to_hex(&r.bytes(n))).unwrap();
                    rooms.clear();
                    store_room = 0;
                } else {
                    writeln!(out, "rem").unwrap();
                }
            }
            10 | 11 => {
                let n = if r.chance(1, 6) { room + 1 + r.below(3) as usize } else if r.chance(1, 12) { usize::MAX } else { r.below(room as u64 + 1) as usize };
                writeln!(out, "adv {} {:02x}", n, r.below(256)).unwrap();
                if n > room {
                    rooms.clear();
                    store_room = 0;
                } else {
                    *rooms.last_mut().unwrap() -= n;
                }
            }
            12 => writeln!(out, "rem").unwrap(),
            13..=15 => {
                if depth < 5 {
                    let (c, room2) = caps_str(r, room);
                    writeln!(out, "open{}", c).unwrap();
                    rooms.push(room2);
                } else {
                    writeln!(out, "rem").unwrap();
                }
            }
            16 | 17 => writeln!(out, "setr {}", rdr_str(r, 0)).unwrap(),
            18 | 19 => {
                let (c, _) = caps_str(r, room);
                writeln!(out, "read{}", c).unwrap();
            }
            20 | 21 => {
                writeln!(out, "init").unwrap();
                rooms.pop();
            }
            _ => {
                writeln!(out, "drop").unwrap();
                rooms.pop();
            }
        }
        if rooms.is_empty() {
            // unknown after a release; a shadow that is too small only makes sizes less boundary-dense
            store_room = store_room.min(cap);
        }
    }
    // close what is still open so the container is observed
    for _ in 0..rooms.len() {
        writeln!(out, "{}", if r.chance(1, 2) { "init" } else { "drop" }).unwrap();
    }
}

/// hand-written scenarios of the property text, for one container shape
fn scripted(out: &mut dyn Write, kind: &str, cap: usize, len: usize, lite: bool) {
    let room = if is_slicey(kind) { cap } else { cap - len.min(cap) };
    let mut s = |lines: &[String]| {
        new_line(out, kind, cap, len);
        for l in lines {
            writeln!(out, "{}", l).unwrap();
        }
    };
    let w = |n: usize, start: u8| format!("w {}", to_hex(&pat(n, start)));
    let l = |x: &str| x.to_string();
    // exact fit, then one byte too many
    s(&[l("open"), l("rem"), w(room, 1), l("rem"), w(1, 0x70), w(0, 0), l("init")]);
    // too long at once: the fitting prefix is committed
    s(&[l("open"), w(room + 1, 1), l("rem"), l("init")]);
    s(&[l("open"), w(1, 1), w(room + 2, 0x11), l("init"), l("open"), w(1, 0x21), l("init")]);
    // dropped without use; used and dropped without `initialized`
    s(&[l("open"), l("drop"), l("open"), w(room / 2, 1), l("drop"), l("open"), l("init")]);
    // capped views, including caps beyond the capacity
    let caps: Vec<usize> = if lite { vec![0, room, room + 1, usize::MAX] } else { vec![0, 1, room.saturating_sub(1), room, room + 1, room + 4, usize::MAX] };
    for c in caps {
        s(&[format!("open {}", c), l("rem"), w(c.min(room), 1), w(1, 0x55), l("init")]);
        s(&[format!("open {} {}", room, c), l("rem"), w(1, 1), l("init")]);
        s(&[format!("open {} {}", c, room + 1), l("rem"), w(1, 1), l("drop")]);
        s(&[l("open"), w(1, 9), format!("open {}", c), w(2, 1), l("init"), l("rem"), l("init")]);
    }
    // nesting: the parent counts what the children committed, in order
    s(&[l("open"), w(1, 1), l("open"), w(1, 2), l("open"), w(1, 3), l("init"), w(1, 4), l("init"), w(1, 5), l("rem"), l("init")]);
    s(&[l("open"), l("open 1"), w(2, 1), l("drop"), l("rem"), l("open"), l("drop"), l("open"), w(room, 7), l("init"), w(1, 1), l("init")]);
    // iterator extends
    s(&[l("open"), format!("xr 07 {}", room), l("xr 08 1"), l("xr 09 0"), l("init")]);
    s(&[l("open"), format!("xr 07 {}", usize::MAX), l("init")]);
    // advance: inside, exactly to the end, beyond (assert), overflowing sum
    s(&[l("open"), format!("adv {} ee", room / 2), format!("adv {} ef", room - room / 2), l("adv 0 00"), l("init")]);
    s(&[l("open"), w(1, 1), format!("adv {} ee", room + 1)]);
    s(&[l("open"), w(1, 1), l("open"), w(1, 2), format!("adv {} ee", usize::MAX), l("open"), w(1, 3), l("init")]);
    // an iterator that panics in the middle of an extend, two views deep
    s(&[l("open"), w(1, 1), l("open"), l("xp 0203"), l("open"), w(1, 4), l("init")]);
    s(&[l("open"), format!("xp {}", to_hex(&pat(room + 1, 1))), l("init")]);
    // readers
    s(&[l("setr slice 0102030405"), l("read"), l("read"), l("read 1"), l("read")]);
    s(&[l("setr rep 07"), l("read 2"), l("read 1 9"), l("read")]);
    s(&[l("setr empty"), l("read"), l("open"), l("read"), l("setr take 3 rep 09"), l("read"), l("read"), l("init")]);
    s(&[l("setr chain slice 0102 fail 0f"), l("open"), w(1, 0x31), l("read"), l("read"), l("read"), w(1, 0x32), l("init")]);
    s(&[l("setr chain slice 01 chain empty take 2 rep 05"), l("read 1"), l("read"), l("read"), l("read")]);
    s(&[l("setr file 0102030405"), l("read"), l("read"), l("read 1"), l("read"), l("open"), l("read"), l("init")]);
    s(&[l("setr bufr 3 file 0102030405060708"), l("read 1"), l("read"), l("read 2"), l("read"), l("read")]);
    s(&[l("setr take 3 file 0102030405"), l("read 2"), l("read"), l("read"), l("setr file -"), l("read")]);
    s(&[l("setr bufr 3 slice 0102030405060708"), l("read 1"), l("read"), l("read 2"), l("read"), l("read")]);
    s(&[l("setr bufr 2 chain slice 010203 fail 0f"), l("open"), l("read 1"), l("read 1"), l("read"), l("read"), l("init")]);
    s(&[l("setr bufr 0 rep 07"), l("read 2"), l("setr take 3 bufr 4 rep 08"), l("read 2"), l("read")]);
    s(&[format!("setr liar {} 0e", room), l("read")]);
    s(&[format!("setr liar {} 0e", room + 1), l("open"), w(1, 1), l("read")]);
    s(&[l("setr take 4 liar 5 0e"), l("read")]);
    s(&[l("setr fail 0d"), l("read"), l("open"), l("read 1"), l("init")]);
    // operations that are not available at depth 0
    s(&[l("w 01"), l("init"), l("drop"), l("rem"), l("adv 1 00")]);
}

fn alphabet(kind: usize, room: usize) -> Vec<String> {
    let l = |x: &str| x.to_string();
    match kind {
        // writes, nesting, exits
        0 => vec![l("w 01"), l("w 0203"), l("w 040506"), l("open"), l("open 1"), l("init"), l("drop"), l("rem"), l("xr 07 2")],
        // caps around the capacity, advance, panics
        1 => vec![
            l("w 11"),
            format!("open {}", room),
            format!("open {}", room + 1),
            l("open 2 1"),
            l("open 1 2"),
            l("adv 1 ee"),
            l("adv 2 ef"),
            l("xp 21"),
            l("init"),
            l("drop"),
        ],
        // honest readers
        2 => vec![
            l("setr slice 31323334"),
            l("setr take 3 rep 41"),
            l("setr chain slice 51 fail 5f"),
            l("setr bufr 2 file 818283"),
            l("read"),
            l("read 1"),
            l("open"),
            l("w 71"),
            l("init"),
        ],
        // over-claiming readers (refused by a panic that unwinds through the live views)
        _ => vec![
            l("setr liar 2 6e"),
            l("setr take 3 liar 5 6f"),
            l("setr chain slice 51 liar 9 6d"),
            l("read"),
            l("read 1"),
            l("open"),
            l("w 71"),
            l("init"),
            l("drop"),
        ],
    }
}

/// Sessions in which a panic can unwind through live views (`xp`, `adv`, over-claiming readers) go
/// last: if a broken library lets such an unwinding reach a destructor with a corrupt counter, std
/// aborts the process, and whatever the same harness process reported before would be lost.  With
/// the calm sessions first, the shards at the front keep their oracle reports.
fn calm_first(all: &[u8]) -> Vec<u8> {
    let text = String::from_utf8_lossy(all);
    let mut units: Vec<(bool, String)> = vec![];
    for line in text.lines() {
        let start = line.starts_with("new ") || line.starts_with("hash ");
        if start || units.is_empty() {
            units.push((false, String::new()));
        }
        let u = units.last_mut().unwrap();
        let t: Vec<&str> = line.split_ascii_whitespace().collect();
        if t.iter().any(|x| *x == "xp" || *x == "adv" || *x == "liar") {
            u.0 = true;
        }
        u.1.push_str(line);
        u.1.push('\n');
    }
    let mut out = Vec::with_capacity(all.len());
    for pass in [false, true] {
        for (wild, body) in &units {
            if *wild == pass {
                out.extend_from_slice(body.as_bytes());
            }
        }
    }
    out
}

impl Domain for D {
    fn gen(&self, tier: &str, seed: u64, out: &mut dyn Write) {
        let mut all: Vec<u8> = vec![];
        self.gen_all(tier, seed, &mut all);
        out.write_all(&calm_first(&all)).unwrap();
    }
    fn runner(&self) -> Box<dyn Runner> {
        Box::new(R { sess: None })
    }
}

impl D {
    fn gen_all(&self, tier: &str, seed: u64, out: &mut dyn Write) {
        let mut r = Rng::new(seed ^ 0xc19_b0ff);
        let miri = tier == "miri";
        let thorough = tier == "thorough";
        // 1. scripted scenarios for every small container shape
        let shapes: Vec<(usize, usize)> = if miri {
            vec![(0, 0), (4, 0), (4, 1)]
        } else {
            let mut v = vec![];
            for cap in [0usize, 1, 2, 3, 4, 5, 8, 16, 32] {
                for len in [0usize, 1, 2, cap / 2, cap.saturating_sub(1), cap] {
                    if len <= cap && !v.contains(&(cap, len)) {
                        v.push((cap, len));
                    }
                }
            }
            v
        };
        for kind in KINDS {
            for &(cap, len) in &shapes {
                if is_slicey(kind) && len != 0 {
                    continue;
                }
                // Miri: (0,0) and (4,1) for the vectors; 4 bytes for the slice kinds, 0 bytes only for `slice`
                if miri && (kind == "vec" || kind == "arr") && (cap, len) == (4, 0) {
                    continue;
                }
                if miri && (kind == "sref" || kind == "raw") && cap == 0 {
                    continue;
                }
                if miri && kind == "arr" && cap == 0 {
                    continue;
                }
                scripted(out, kind, cap, len, miri);
            }
        }
        // 2. exhaustive op sequences (hash form)
        if !miri {
            let lmax = if thorough { 5 } else { 3 };
            for kind in KINDS {
                for cap in 0..=3usize {
                    for len in 0..=cap.min(2) {
                        let sl = is_slicey(kind);
                        if sl && len != 0 {
                            continue;
                        }
                        let room = if sl { cap } else { cap - len };
                        let old = if sl { pat(cap, 0xa0) } else { pat(len, 0xa0) };
                        for a in 0..4 {
                            let al = alphabet(a, room);
                            // thorough: length 5 for the richest shapes, 4 elsewhere
                            let l = if thorough { if cap == 2 || cap == 3 { lmax } else { lmax - 1 } } else { lmax };
                            writeln!(out, "hash {} {} {} {} / {}", kind, cap, to_hex(&old), l, al.join(" / ")).unwrap();
                        }
                    }
                }
            }
        }
        // 2b. thorough: length-6 sweeps of the first alphabet, and random alphabets
        if thorough {
            for kind in ["vec", "sref"] {
                let old = if kind == "sref" { pat(2, 0xa0) } else { pat(1, 0xa0) };
                writeln!(out, "hash {} 2 {} 6 / {}", kind, to_hex(&old), alphabet(0, 1).join(" / ")).unwrap();
            }
            for i in 0..48 {
                let kind = KINDS[i % 5];
                let cap = 1 + r.below(4) as usize;
                let sl = is_slicey(kind);
                let len = if sl { cap } else { r.below(cap as u64 + 1) as usize };
                let room = if sl { cap } else { cap - len };
                let mut al: Vec<String> = vec!["init".to_string(), "open".to_string()];
                for _ in 0..6 {
                    let n = r.below(room as u64 + 2) as usize;
                    let x = match r.below(9) {
                        0 | 1 | 2 => format!("w {}", to_hex(&r.bytes(n))),
                        3 => format!("open{}", caps_str(&mut r, room).0),
                        4 => format!("read{}", caps_str(&mut r, room).0),
                        5 => format!("setr {}", rdr_str(&mut r, 0)),
                        6 => format!("adv {} {:02x}", n, r.below(256)),
                        7 => format!("xr {:02x} {}", r.below(256), n),
                        _ => "drop".to_string(),
                    };
                    al.push(x);
                }
                writeln!(out, "hash {} {} {} 4 / {}", kind, cap, to_hex(&pat(len, 0xa0)), al.join(" / ")).unwrap();
            }
        }
        // 3. random sessions
        let (n, nops) = if miri { (30, 12) } else if thorough { (60000, 30) } else { (1500, 24) };
        for i in 0..n {
            let max_cap = if i % 4 == 0 { 32 } else { 6 };
            let k = 4 + r.below(nops as u64) as usize;
            random_session(&mut r, out, max_cap, k);
        }
    }
}
