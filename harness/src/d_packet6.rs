//! Domain `packet6`: `net/src/protocol.rs` (Teeworlds 0.6 / DDNet packet and chunk codecs).
//! Properties C05 (write/read and header round trips) and C06 (reader totality, slice bounds,
//! re-writability).  Model side: `lean/Tw/Drv/Packet6.lean`.
use crate::util::*;
use libtw2_common::bytes::AsBytesExt;
use libtw2_common::bytes::FromBytesExt;
use libtw2_huffman::instances::TEEWORLDS as HUFFMAN;
use libtw2_net::protocol::*;
use std::io::Write;

pub struct D;

pub fn domain() -> Box<dyn Domain> {
    Box::new(D)
}

fn ws_str(ws: &[Warning]) -> String {
    list_str(ws.iter().map(|w| format!("{:?}", w)))
}

fn tok_str(t: &Option<Token>) -> String {
    match t {
        None => "n".to_string(),
        Some(t) => t.0.iter().map(|b| format!("{:02x}", b)).collect(),
    }
}

fn parse_tok(s: &str) -> Option<Token> {
    if s == "n" {
        None
    } else {
        let b = parse_hex(s).unwrap();
        Some(Token([b[0], b[1], b[2], b[3]]))
    }
}

fn b01(b: bool) -> &'static str {
    if b {
        "1"
    } else {
        "0"
    }
}

fn pkt_str(p: &Packet) -> String {
    match *p {
        Packet::Connless(d) => format!("connless {}", to_hex(d)),
        Packet::Connected(ConnectedPacket { ack, token, type_ }) => match type_ {
            ConnectedPacketType::Chunks(rr, nc, d) => {
                format!("chunks {} {} {} {} {}", ack, tok_str(&token), b01(rr), nc, to_hex(d))
            }
            ConnectedPacketType::Control(c) => format!(
                "ctrl {} {} {}",
                ack,
                tok_str(&token),
                match c {
                    ControlPacket::KeepAlive => "keepalive".to_string(),
                    ControlPacket::Connect => "connect".to_string(),
                    ControlPacket::ConnectAccept => "connectaccept".to_string(),
                    ControlPacket::Accept => "accept".to_string(),
                    ControlPacket::Close(r) => format!("close {}", to_hex(r)),
                }
            ),
        },
    }
}

/// Owned packet description (request side).
#[derive(Clone, Debug)]
pub enum Spec {
    Connless(Vec<u8>),
    Chunks(u16, Option<Token>, bool, u8, Vec<u8>),
    Ctrl(u16, Option<Token>, String, Vec<u8>),
}

fn parse_spec(t: &[&str]) -> Option<Spec> {
    match t {
        ["connless", h] => Some(Spec::Connless(parse_hex(h)?)),
        ["chunks", ack, tok, rr, nc, h] => Some(Spec::Chunks(
            ack.parse().ok()?,
            parse_tok(tok),
            *rr == "1",
            nc.parse().ok()?,
            parse_hex(h)?,
        )),
        ["ctrl", ack, tok, "close", h] => Some(Spec::Ctrl(ack.parse().ok()?, parse_tok(tok), "close".to_string(), parse_hex(h)?)),
        ["ctrl", ack, tok, name] => Some(Spec::Ctrl(ack.parse().ok()?, parse_tok(tok), name.to_string(), vec![])),
        _ => None,
    }
}

fn spec_str(s: &Spec) -> String {
    pkt_str(&spec_packet(s))
}

fn spec_packet<'a>(s: &'a Spec) -> Packet<'a> {
    match s {
        Spec::Connless(d) => Packet::Connless(d),
        Spec::Chunks(ack, token, rr, nc, d) => Packet::Connected(ConnectedPacket {
            ack: *ack,
            token: *token,
            type_: ConnectedPacketType::Chunks(*rr, *nc, d),
        }),
        Spec::Ctrl(ack, token, name, r) => Packet::Connected(ConnectedPacket {
            ack: *ack,
            token: *token,
            type_: ConnectedPacketType::Control(match &name[..] {
                "keepalive" => ControlPacket::KeepAlive,
                "connect" => ControlPacket::Connect,
                "connectaccept" => ControlPacket::ConnectAccept,
                "accept" => ControlPacket::Accept,
                "close" => ControlPacket::Close(r),
                _ => panic!("bad control name"),
            }),
        }),
    }
}

/// `Valid` of C05, stated on the value only (independent of the model): what the API documents as
/// expressible within the size limit.
fn spec_valid(s: &Spec) -> bool {
    match s {
        Spec::Connless(d) => d.len() <= MAX_PAYLOAD,
        Spec::Chunks(ack, token, _, _, d) => {
            *ack < 1024 && d.len() + if token.is_some() { TOKEN_SIZE } else { 0 } <= MAX_PACKETSIZE - HEADER_SIZE
        }
        Spec::Ctrl(ack, _, name, r) => {
            *ack < 1024 && (name != "close" || (r.len() <= CTRLMSG_CLOSE_REASON_LENGTH && r.iter().all(|&b| b != 0)))
        }
    }
}

fn spec_has_token(s: &Spec) -> bool {
    match s {
        Spec::Connless(_) => false,
        Spec::Chunks(_, t, ..) | Spec::Ctrl(_, t, ..) => t.is_some(),
    }
}

/// warnings a reader is expected to give for a *valid* value (by design of the format): an empty
/// chunk packet that does not request a resend is reported as `ChunksNoChunks`.
fn spec_expected_warnings(s: &Spec) -> Vec<Warning> {
    match s {
        Spec::Chunks(_, _, false, 0, _) => vec![Warning::ChunksNoChunks],
        _ => vec![],
    }
}

fn parse_hint(s: &str) -> Option<bool> {
    match s {
        "n" => None,
        "t" => Some(true),
        "f" => Some(false),
        _ => panic!("bad hint"),
    }
}

fn vital_str(v: &Option<(u16, bool)>) -> String {
    match v {
        None => "n".to_string(),
        Some((s, r)) => format!("{}.{}", s, b01(*r)),
    }
}

struct Ranges {
    inp: (usize, usize),
    scratch: (usize, usize),
}

impl Ranges {
    /// (buffer name, offset) of a slice, from its pointer range
    fn locate(&self, s: &[u8], o: &mut Oracle, what: &str) -> String {
        let p = s.as_ptr() as usize;
        let n = s.len();
        if p >= self.inp.0 && p + n <= self.inp.0 + self.inp.1 {
            format!("in:{}:{}", p - self.inp.0, n)
        } else if p >= self.scratch.0 && p + n <= self.scratch.0 + self.scratch.1 {
            format!("scratch:{}:{}", p - self.scratch.0, n)
        } else {
            o.fail("C06/slice-outside-buffers", format!("{}: ptr={:#x} len={} in={:?} scratch={:?}", what, p, n, self.inp, self.scratch));
            "outside".to_string()
        }
    }
}

/// `chunks=… cw=… pos=…`: drain a `ChunksIter`, then call it twice more (it must stay `None`).
fn iter_str(payload: &[u8], nc: u8, base_off: Option<(&Ranges, usize)>, o: &mut Oracle) -> String {
    let mut ws: Vec<Warning> = vec![];
    let mut it = ChunksIter::new(payload, nc);
    let mut chs = vec![];
    let mut n = 0usize;
    let p0 = payload.as_ptr() as usize;
    loop {
        let before = it.pos();
        match it.next_warn(&mut ws) {
            Some(c) => {
                let p = c.data.as_ptr() as usize;
                if p < p0 || p + c.data.len() > p0 + payload.len() {
                    o.fail("C06/slice-outside-buffers", format!("chunk data outside payload: payload={}", to_hex(payload)));
                    chs.push("outside".to_string());
                } else {
                    chs.push(format!("{}:{}:{}", p - p0, c.data.len(), vital_str(&c.vital)));
                }
                if it.pos() <= before {
                    o.fail("C06/iterator-no-progress", format!("payload={}", to_hex(payload)));
                    break;
                }
            }
            None => break,
        }
        n += 1;
        if n > payload.len() + 2 {
            o.fail("C06/iterator-no-progress", format!("payload={}", to_hex(payload)));
            break;
        }
    }
    let r1 = it.next_warn(&mut ws).is_some();
    let r2 = it.next_warn(&mut ws).is_some();
    let _ = base_off;
    format!(
        "chunks={} cw={} pos={}{}",
        list_str(chs),
        ws_str(&ws),
        it.pos(),
        if r1 || r2 { " unstable" } else { "" }
    )
}

/// Runs `Packet::read` (cap = Some) or `read_panic_on_decompression` (cap = None) with input and
/// scratch buffer carved out of one allocation (64 bytes apart), renders the canonical line and
/// evaluates the C06 oracle.
fn do_read(bytes: &[u8], hint: Option<bool>, cap: Option<usize>, o: &mut Oracle, check: bool) -> String {
    if check && cap.map(|c| c >= MAX_PACKETSIZE).unwrap_or(false) {
        oracle_two_step(bytes, hint, o);
    }
    let n = bytes.len();
    let capv = cap.unwrap_or(0);
    let mut big = vec![0u8; n + 64 + capv];
    let (inp, rest) = big.split_at_mut(n);
    inp.copy_from_slice(bytes);
    let scratch = &mut rest[64..];
    let ranges = Ranges {
        inp: (inp.as_ptr() as usize, n),
        scratch: (scratch.as_ptr() as usize, capv),
    };
    let inp: &[u8] = inp;
    let mut ws: Vec<Warning> = vec![];
    let r = catch(|| match cap {
        Some(_) => Packet::read(&mut ws, inp, hint, &mut scratch[..]),
        None => Packet::read_panic_on_decompression(&mut ws, inp, hint),
    });
    match r {
        Err(msg) => {
            // documented preconditions: scratch buffer of at least MAX_PACKETSIZE; no compressed
            // packet for read_panic_on_decompression
            let pre_ok = match cap {
                Some(c) => c >= MAX_PACKETSIZE,
                None => !(n >= 3 && n <= MAX_PACKETSIZE && bytes[0] & 0x20 == 0 && bytes[0] & 0x80 != 0),
            };
            if check && pre_ok {
                o.fail("C06/reader-panics", format!("hint={:?} cap={:?} bytes={} panic={}", hint, cap, to_hex(bytes), msg));
            }
            "panic".to_string()
        }
        Ok(Err(e)) => format!("err {:?} w={}", e, ws_str(&ws)),
        Ok(Ok(p)) => {
            let loc = match p {
                Packet::Connless(d) => ranges.locate(d, o, "connless payload"),
                Packet::Connected(ConnectedPacket { type_: ConnectedPacketType::Chunks(_, _, d), .. }) => ranges.locate(d, o, "chunks payload"),
                Packet::Connected(ConnectedPacket { type_: ConnectedPacketType::Control(ControlPacket::Close(d)), .. }) => ranges.locate(d, o, "close reason"),
                _ => "-".to_string(),
            };
            let mut line = format!("ok {} w={} loc={}", pkt_str(&p), ws_str(&ws), loc);
            if let Packet::Connected(ConnectedPacket { type_: ConnectedPacketType::Chunks(_, nc, d), .. }) = p {
                line.push(' ');
                line.push_str(&iter_str(d, nc, None, o));
            }
            if check {
                oracle_rewrite(&p, bytes, o);
            }
            line
        }
    }
}

/// C06: whatever the reader accepts can be written out again and is then read back as the same
/// value.
fn oracle_rewrite(p: &Packet, orig: &[u8], o: &mut Oracle) {
    let mut buf = [0u8; MAX_PACKETSIZE];
    let has_token = match p {
        Packet::Connected(c) => c.token.is_some(),
        Packet::Connless(_) => false,
    };
    let want = pkt_str(p);
    let w = catch(|| p.write(&mut buf[..]).map(|b| b.to_vec()));
    let written = match w {
        Err(msg) => {
            o.fail("C06/accepted-not-writable-panic", format!("bytes={} value={} panic={}", to_hex(orig), want, msg));
            return;
        }
        Ok(Err(e)) => {
            let tag = match (p, &e) {
                (Packet::Connless(_), Error::TooLongData) => "C06/accepted-connless-too-long-to-write",
                _ => "C06/accepted-not-writable",
            };
            o.fail(tag, format!("bytes={} value={} error={:?}", to_hex(orig), &want[..want.len().min(80)], e));
            return;
        }
        Ok(Ok(b)) => b,
    };
    let mut scratch = [0u8; MAX_PACKETSIZE];
    let mut ws: Vec<Warning> = vec![];
    let r = catch(|| Packet::read(&mut ws, &written, Some(has_token), &mut scratch[..]).map(|p| pkt_str(&p)));
    match r {
        Ok(Ok(got)) if got == want => {}
        other => o.fail(
            "C06/rewrite-differs",
            format!("bytes={} value={} rewritten={} reread={:?}", to_hex(orig), &want[..want.len().min(80)], to_hex(&written), other.map(|x| x.map(|s| s[..s.len().min(80)].to_string()))),
        ),
    }
}

/// value or error of a read result, without warnings and slice locations
fn outcome_str(r: Result<Result<String, PacketReadError>, String>) -> String {
    match r {
        Err(msg) => format!("panic({})", msg),
        Ok(Err(e)) => format!("err {:?}", e),
        Ok(Ok(p)) => p,
    }
}

/// C06, the two-step path (what a caller without a scratch buffer for `read` does, e.g. a dissector):
/// `decompress_if_needed(bytes)` into a `MAX_PACKETSIZE` buffer, then `read_panic_on_decompression` of the
/// output.  It must not panic and must give the value / error `Packet::read(bytes)` gives; so must
/// `Packet::read` of the output.
fn oracle_two_step(bytes: &[u8], hint: Option<bool>, o: &mut Oracle) {
    let mut s1 = [0u8; MAX_PACKETSIZE];
    let mut w: Vec<Warning> = vec![];
    let direct = outcome_str(catch(|| Packet::read(&mut w, bytes, hint, &mut s1[..]).map(|p| pkt_str(&p))));
    let mut buf: Vec<u8> = Vec::with_capacity(MAX_PACKETSIZE);
    let out: Vec<u8> = match catch(|| Packet::decompress_if_needed(bytes, &mut buf)) {
        Err(msg) => {
            o.fail("C06/reader-panics", format!("decompress_if_needed bytes={} panic={}", to_hex(bytes), msg));
            return;
        }
        Ok(Err(_)) => {
            if direct != "err Compression" {
                o.fail("C06/two-step-read-differs", format!("bytes={} decompress_if_needed fails, read gives {}", to_hex(bytes), &direct[..direct.len().min(80)]));
            }
            return;
        }
        Ok(Ok(false)) => bytes.to_vec(),
        Ok(Ok(true)) => buf.clone(),
    };
    let mut w2: Vec<Warning> = vec![];
    let two = outcome_str(catch(|| Packet::read_panic_on_decompression(&mut w2, &out, hint).map(|p| pkt_str(&p))));
    if two.starts_with("panic(") {
        // without a buffer a compressed *input* may panic by contract; the output of decompress_if_needed may not
        if out != bytes || !direct.starts_with("panic(") {
            o.fail("C06/reader-panics", format!("read_panic_on_decompression on the output of decompress_if_needed: bytes={} out={} {}", to_hex(bytes), to_hex(&out[..out.len().min(16)]), two));
        }
        return;
    }
    let mut s3 = [0u8; MAX_PACKETSIZE];
    let mut w3: Vec<Warning> = vec![];
    let again = outcome_str(catch(|| Packet::read(&mut w3, &out, hint, &mut s3[..]).map(|p| pkt_str(&p))));
    if two != direct || again != direct {
        o.fail(
            "C06/two-step-read-differs",
            format!("bytes={} direct={} two-step={} read(out)={}", to_hex(bytes), &direct[..direct.len().min(60)], &two[..two.len().min(60)], &again[..again.len().min(60)]),
        );
    }
}

/// `Packet::write` into a buffer of `cap` bytes + the C05 oracle.
fn do_write(s: &Spec, cap: usize, o: &mut Oracle) -> String {
    let mut buf = vec![0u8; cap];
    let p = spec_packet(s);
    let r = catch(|| p.write(&mut buf[..]).map(|b| b.to_vec()));
    let valid = spec_valid(s);
    match r {
        Err(msg) => {
            if valid {
                o.fail("C05/valid-packet-write-panics", format!("value={} panic={}", spec_str(s), msg));
            }
            "panic".to_string()
        }
        Ok(Err(e)) => {
            if valid && cap >= MAX_PACKETSIZE {
                o.fail("C05/valid-packet-not-written", format!("value={} cap={} error={:?}", spec_str(s), cap, e));
            }
            match e {
                Error::Capacity(_) => "capacity".to_string(),
                Error::TooLongData => "toolong".to_string(),
            }
        }
        Ok(Ok(bytes)) => {
            if bytes.len() > cap {
                o.fail("C05/write-overruns-buffer", format!("value={} cap={}", spec_str(s), cap));
            }
            if valid {
                // C05 mechanism: compression is used iff it is strictly shorter, and flagged in the header
                if let Spec::Chunks(_, token, _, _, d) = s {
                    let mut plain = d.clone();
                    if let Some(t) = token {
                        plain.extend_from_slice(&t.0);
                    }
                    let cl = HUFFMAN.compressed_len(&plain);
                    let flagged = bytes[0] & 0x80 != 0;
                    if flagged != (cl < plain.len()) || bytes.len() != HEADER_SIZE + if flagged { cl } else { plain.len() } {
                        o.fail("C05/compressed-iff-strictly-shorter", format!("value={} plain={} compressed={} flagged={} written={}", &spec_str(s)[..spec_str(s).len().min(80)], plain.len(), cl, flagged, bytes.len()));
                    }
                }
                if bytes.len() > MAX_PACKETSIZE {
                    o.fail("C05/valid-packet-too-long", format!("value={} len={}", spec_str(s), bytes.len()));
                }
                for scap in [MAX_PACKETSIZE, 2048, 4096] {
                    let mut scratch = vec![0u8; scap];
                    let mut ws: Vec<Warning> = vec![];
                    let want = spec_str(s);
                    let r = catch(|| Packet::read(&mut ws, &bytes, Some(spec_has_token(s)), &mut scratch[..]).map(|p| pkt_str(&p)));
                    match r {
                        Ok(Ok(got)) if got == want => {
                            if ws != spec_expected_warnings(s) {
                                o.fail("C05/roundtrip-warnings", format!("value={} bytes={} warnings={}", &want[..want.len().min(80)], to_hex(&bytes), ws_str(&ws)));
                            }
                        }
                        other => o.fail(
                            "C05/roundtrip-value",
                            format!("value={} bytes={} read={:?}", &want[..want.len().min(80)], to_hex(&bytes), other.map(|x| x.map(|s| s[..s.len().min(80)].to_string()))),
                        ),
                    }
                }
            }
            // `Ok` although payload + token did not fit the writer's 2048-byte ArrayVec: the packet that was
            // written carries a truncated payload/token and no error was reported (outside C05's `Valid`;
            // an explicit outcome of the model, `WriteResult.okTruncated`)
            if let Spec::Chunks(_, Some(_), _, _, d) = s {
                if d.len() + TOKEN_SIZE > 2048 {
                    o.count("silent_truncation_ok_returned");
                    return format!("truncated {}", to_hex(&bytes));
                }
            }
            format!("ok {}", to_hex(&bytes))
        }
    }
}

fn opt3(r: Result<[u8; 3], String>) -> String {
    match r {
        Ok(b) => to_hex(&b),
        Err(_) => "panic".to_string(),
    }
}

fn ph_line(b: [u8; 3], o: &mut Oracle) -> String {
    let mut ws: Vec<Warning> = vec![];
    let h = PacketHeaderPacked::from_array(b).unpack_warn(&mut ws);
    let re = catch(|| *h.pack().as_byte_array());
    // C05: unpack → pack is the identity up to the two padding bits (doc/packet.md)
    if re.as_ref().ok() != Some(&[b[0] & 0b1111_0011, b[1], b[2]]) {
        o.fail("C05/header-unpack-pack", format!("PacketHeader bytes={} repacked={:?}", to_hex(&b), re));
    }
    format!("{} {} {} {} {}", h.flags, h.ack, h.num_chunks, ws_str(&ws), opt3(re))
}

fn ch_line(b: [u8; 2], o: &mut Oracle) -> String {
    let mut ws: Vec<Warning> = vec![];
    let h = ChunkHeaderPacked::from_array(b).unpack_warn(&mut ws);
    let re = catch(|| *h.pack().as_byte_array());
    if re.as_ref().ok() != Some(&[b[0], b[1] & 0b0000_1111]) {
        o.fail("C05/header-unpack-pack", format!("ChunkHeader bytes={} repacked={:?}", to_hex(&b), re));
    }
    if ws.is_empty() != (b[1] & 0xf0 == 0) {
        o.fail("C05/header-warning-iff-noncanonical", format!("ChunkHeader bytes={} warnings={}", to_hex(&b), ws_str(&ws)));
    }
    format!(
        "{} {} {} {}",
        h.flags,
        h.size,
        ws_str(&ws),
        match re {
            Ok(b) => to_hex(&b),
            Err(_) => "panic".to_string(),
        }
    )
}

fn chv_line(b: [u8; 3], o: &mut Oracle) -> String {
    let mut ws: Vec<Warning> = vec![];
    let h = ChunkHeaderVitalPacked::from_array(b).unpack_warn(&mut ws);
    let re = catch(|| *h.pack().as_byte_array());
    // the two sequence bits stored twice are or-ed together (doc/packet.md)
    let want = [b[0], b[1] | ((b[2] & 0b1100_0000) >> 2), b[2] | ((b[1] & 0b0011_0000) << 2)];
    if re.as_ref().ok() != Some(&want) {
        o.fail("C05/header-unpack-pack", format!("ChunkHeaderVital bytes={} repacked={:?}", to_hex(&b), re));
    }
    if ws.is_empty() != ((b[1] & 0x30) >> 4 == (b[2] & 0xc0) >> 6) {
        o.fail("C05/header-warning-iff-noncanonical", format!("ChunkHeaderVital bytes={} warnings={}", to_hex(&b), ws_str(&ws)));
    }
    format!("{} {} {} {} {}", h.h.flags, h.h.size, h.sequence, ws_str(&ws), opt3(re))
}

fn ph_pack_line(f: u8, a: u16, n: u8, o: &mut Oracle) -> String {
    let h = PacketHeader { flags: f, ack: a, num_chunks: n };
    match catch(|| *h.pack().as_byte_array()) {
        Err(_) => {
            if f < 16 && a < 1024 {
                o.fail("C05/header-pack-unpack", format!("PacketHeader {:?} pack panics", h));
            }
            "panic".to_string()
        }
        Ok(b) => {
            let mut ws: Vec<Warning> = vec![];
            let h2 = PacketHeaderPacked::from_array(b).unpack_warn(&mut ws);
            if h2 != h || !ws.is_empty() {
                o.fail("C05/header-pack-unpack", format!("PacketHeader {:?} bytes={} unpacked={:?} warnings={}", h, to_hex(&b), h2, ws_str(&ws)));
            }
            format!("{} {} {} {} {}", to_hex(&b), h2.flags, h2.ack, h2.num_chunks, ws_str(&ws))
        }
    }
}

fn ch_pack_line(f: u8, s: u16, o: &mut Oracle) -> String {
    let h = ChunkHeader { flags: f, size: s };
    match catch(|| *h.pack().as_byte_array()) {
        Err(_) => {
            if f < 4 && s < 1024 {
                o.fail("C05/header-pack-unpack", format!("ChunkHeader {:?} pack panics", h));
            }
            "panic".to_string()
        }
        Ok(b) => {
            let mut ws: Vec<Warning> = vec![];
            let h2 = ChunkHeaderPacked::from_array(b).unpack_warn(&mut ws);
            if h2 != h || !ws.is_empty() {
                o.fail("C05/header-pack-unpack", format!("ChunkHeader {:?} bytes={} unpacked={:?} warnings={}", h, to_hex(&b), h2, ws_str(&ws)));
            }
            format!("{} {} {} {}", to_hex(&b), h2.flags, h2.size, ws_str(&ws))
        }
    }
}

fn chv_pack_line(f: u8, s: u16, q: u16, o: &mut Oracle) -> String {
    let h = ChunkHeaderVital { h: ChunkHeader { flags: f, size: s }, sequence: q };
    match catch(|| *h.pack().as_byte_array()) {
        Err(_) => {
            if f < 4 && s < 1024 && q < 1024 {
                o.fail("C05/header-pack-unpack", format!("ChunkHeaderVital {:?} pack panics", h));
            }
            "panic".to_string()
        }
        Ok(b) => {
            let mut ws: Vec<Warning> = vec![];
            let h2 = ChunkHeaderVitalPacked::from_array(b).unpack_warn(&mut ws);
            if h2 != h || !ws.is_empty() {
                o.fail("C05/header-pack-unpack", format!("ChunkHeaderVital {:?} bytes={} unpacked={:?} warnings={}", h, to_hex(&b), h2, ws_str(&ws)));
            }
            format!("{} {} {} {} {}", to_hex(&b), h2.h.flags, h2.h.size, h2.sequence, ws_str(&ws))
        }
    }
}

fn hash_line(h: u64, s: &str) -> u64 {
    fnv_byte(fnv_bytes(h, s.as_bytes()), 10)
}

fn parse_vital(s: &str) -> Option<(u16, bool)> {
    if s == "n" {
        None
    } else {
        let (q, r) = s.split_once('.').unwrap();
        Some((q.parse().unwrap(), r == "1"))
    }
}

/// `write_chunk` repeatedly into one buffer + C05 oracle (iterating the result returns the list).
fn do_wchunks(cap: usize, specs: &[(Option<(u16, bool)>, Vec<u8>)], o: &mut Oracle) -> String {
    let mut buf: Vec<u8> = Vec::with_capacity(cap);
    assert!(buf.capacity() == cap);
    for (v, d) in specs {
        match catch(|| write_chunk(d, *v, &mut buf).map(|_| ())) {
            Err(msg) => {
                if d.len() < 1024 && v.map(|(q, _)| q < 1024).unwrap_or(true) {
                    o.fail("C05/chunk-write-panics", format!("len={} vital={:?} panic={}", d.len(), v, msg));
                }
                return "panic".to_string();
            }
            Ok(Err(_)) => return "capacity".to_string(),
            Ok(Ok(())) => {}
        }
    }
    // round trip: the iterator returns exactly the list, no warning
    if specs.len() <= 255 {
        let mut ws: Vec<Warning> = vec![];
        let mut it = ChunksIter::new(&buf, specs.len() as u8);
        let mut ok = true;
        for (v, d) in specs {
            match it.next_warn(&mut ws) {
                Some(c) if c.data == &d[..] && c.vital == *v => {}
                _ => {
                    ok = false;
                    break;
                }
            }
        }
        if ok && it.next_warn(&mut ws).is_some() {
            ok = false;
        }
        if !ok {
            o.fail("C05/chunk-roundtrip-value", format!("bytes={}", to_hex(&buf)));
        } else if !ws.is_empty() {
            o.fail("C05/chunk-roundtrip-warnings", format!("bytes={} warnings={}", to_hex(&buf), ws_str(&ws)));
        }
    }
    format!("ok {}", to_hex(&buf))
}

struct R;

impl Runner for R {
    fn run(&mut self, t: &[&str], o: &mut Oracle) -> String {
        match t {
            ["ph", h] => {
                let b = parse_hex(h).unwrap();
                ph_line([b[0], b[1], b[2]], o)
            }
            ["ch", h] => {
                let b = parse_hex(h).unwrap();
                ch_line([b[0], b[1]], o)
            }
            ["chv", h] => {
                let b = parse_hex(h).unwrap();
                chv_line([b[0], b[1], b[2]], o)
            }
            ["ph_pack", f, a, n] => ph_pack_line(f.parse().unwrap(), a.parse().unwrap(), n.parse().unwrap(), o),
            ["ch_pack", f, s] => ch_pack_line(f.parse().unwrap(), s.parse().unwrap(), o),
            ["chv_pack", f, s, q] => chv_pack_line(f.parse().unwrap(), s.parse().unwrap(), q.parse().unwrap(), o),
            ["hash_ph", lo, hi, step] => {
                let (lo, hi, step): (u32, u32, usize) = (lo.parse().unwrap(), hi.parse().unwrap(), step.parse().unwrap());
                let mut h = FNV_OFFSET;
                let mut n = 0u64;
                for a in lo..hi {
                    for b in 0..256u32 {
                        for c in (0..256u32).step_by(step) {
                            h = hash_line(h, &ph_line([a as u8, b as u8, c as u8], o));
                            n += 1;
                        }
                    }
                }
                o.add("packet_headers_swept", n);
                format!("h {}", h)
            }
            ["hash_ch"] => {
                let mut h = FNV_OFFSET;
                for a in 0..256u32 {
                    for b in 0..256u32 {
                        h = hash_line(h, &ch_line([a as u8, b as u8], o));
                    }
                }
                o.add("chunk_headers_swept", 65536);
                format!("h {}", h)
            }
            ["hash_chv", lo, hi, step] => {
                let (lo, hi, step): (u32, u32, usize) = (lo.parse().unwrap(), hi.parse().unwrap(), step.parse().unwrap());
                let mut h = FNV_OFFSET;
                let mut n = 0u64;
                for a in lo..hi {
                    for b in 0..256u32 {
                        for c in (0..256u32).step_by(step) {
                            h = hash_line(h, &chv_line([a as u8, b as u8, c as u8], o));
                            n += 1;
                        }
                    }
                }
                o.add("vital_chunk_headers_swept", n);
                format!("h {}", h)
            }
            ["hash_ph_pack", lo, hi] => {
                let (lo, hi): (u32, u32) = (lo.parse().unwrap(), hi.parse().unwrap());
                let mut h = FNV_OFFSET;
                for f in lo..hi {
                    for a in 0..2048u32 {
                        for n in [0u8, 1, 255] {
                            h = hash_line(h, &ph_pack_line(f as u8, a as u16, n, o));
                        }
                    }
                }
                o.add("packet_header_tuples_swept", (hi - lo) as u64 * 2048 * 3);
                format!("h {}", h)
            }
            ["hash_ch_pack"] => {
                let mut h = FNV_OFFSET;
                for f in 0..8u32 {
                    for s in 0..2048u32 {
                        h = hash_line(h, &ch_pack_line(f as u8, s as u16, o));
                    }
                }
                o.add("chunk_header_tuples_swept", 8 * 2048);
                format!("h {}", h)
            }
            ["hash_chv_pack", lo, hi, step] => {
                let (lo, hi, step): (u32, u32, usize) = (lo.parse().unwrap(), hi.parse().unwrap(), step.parse().unwrap());
                let mut h = FNV_OFFSET;
                let mut n = 0u64;
                for f in lo..hi {
                    for s in (0..1025u32).step_by(step) {
                        for q in 0..1025u32 {
                            h = hash_line(h, &chv_pack_line(f as u8, s as u16, q as u16, o));
                            n += 1;
                        }
                    }
                }
                o.add("vital_chunk_header_tuples_swept", n);
                format!("h {}", h)
            }
            ["read", hint, cap, h] => do_read(&parse_hex(h).unwrap(), parse_hint(hint), Some(cap.parse().unwrap()), o, true),
            ["readp", hint, h] => do_read(&parse_hex(h).unwrap(), parse_hint(hint), None, o, true),
            ["hash_read", hint, cap, pre, lo, hi, nrest, suf] => {
                let hint = parse_hint(hint);
                let cap: usize = cap.parse().unwrap();
                let pre = parse_hex(pre).unwrap();
                let suf = parse_hex(suf).unwrap();
                let (lo, hi, nrest): (u32, u32, u32) = (lo.parse().unwrap(), hi.parse().unwrap(), nrest.parse().unwrap());
                let total = 256u64.pow(nrest);
                let mut h = FNV_OFFSET;
                let mut bs = vec![0u8; pre.len() + 1 + nrest as usize + suf.len()];
                bs[..pre.len()].copy_from_slice(&pre);
                let m = pre.len() + 1 + nrest as usize;
                bs[m..].copy_from_slice(&suf);
                for x in lo..hi {
                    bs[pre.len()] = x as u8;
                    for k in 0..total {
                        for j in 0..nrest as usize {
                            bs[pre.len() + 1 + j] = (k / 256u64.pow(nrest - 1 - j as u32)) as u8;
                        }
                        h = hash_line(h, &do_read(&bs, hint, Some(cap), o, true));
                    }
                }
                o.add("datagrams_swept", (hi - lo) as u64 * total);
                format!("h {}", h)
            }
            ["din", cap, h] => {
                let cap: usize = cap.parse().unwrap();
                let bs = parse_hex(h).unwrap();
                let mut buf: Vec<u8> = Vec::with_capacity(cap);
                assert!(buf.capacity() == cap);
                match catch(|| Packet::decompress_if_needed(&bs, &mut buf)) {
                    Err(msg) => {
                        if cap >= MAX_PACKETSIZE {
                            o.fail("C06/reader-panics", format!("decompress_if_needed cap={} bytes={} panic={}", cap, to_hex(&bs), msg));
                        }
                        "panic".to_string()
                    }
                    Ok(Err(_)) => "err".to_string(),
                    Ok(Ok(false)) => "ok 0".to_string(),
                    Ok(Ok(true)) => {
                        if buf.len() > cap {
                            o.fail("C06/slice-outside-buffers", format!("decompress_if_needed wrote {} > cap {}", buf.len(), cap));
                        }
                        format!("ok 1 {}", to_hex(&buf))
                    }
                }
            }
            ["init", h] => {
                let bs = parse_hex(h).unwrap();
                match catch(|| Packet::is_initial(&bs)) {
                    Err(msg) => {
                        o.fail("C06/reader-panics", format!("is_initial bytes={} panic={}", to_hex(&bs), msg));
                        "panic".to_string()
                    }
                    Ok(b) => b01(b).to_string(),
                }
            }
            ["write", cap, spec @ ..] => {
                let s = parse_spec(spec).unwrap();
                do_write(&s, cap.parse().unwrap(), o)
            }
            ["iter", nc, h] => {
                let bs = parse_hex(h).unwrap();
                let nc: u8 = nc.parse().unwrap();
                match catch(|| {
                    let mut o2 = Oracle::new();
                    let s = iter_str(&bs, nc, None, &mut o2);
                    (s, o2)
                }) {
                    Err(msg) => {
                        o.fail("C06/reader-panics", format!("ChunksIter nc={} bytes={} panic={}", nc, to_hex(&bs), msg));
                        "panic".to_string()
                    }
                    Ok((s, o2)) => {
                        for (_, tag, msg) in o2.fails {
                            o.fail(&tag, msg);
                        }
                        s
                    }
                }
            }
            ["wchunks", cap, specs @ ..] => {
                let specs: Vec<(Option<(u16, bool)>, Vec<u8>)> = specs
                    .iter()
                    .map(|s| {
                        let (v, h) = s.split_once(':').unwrap();
                        (parse_vital(v), parse_hex(h).unwrap())
                    })
                    .collect();
                do_wchunks(cap.parse().unwrap(), &specs, o)
            }
            _ => "bad-op".to_string(),
        }
    }
}

// ---------------------------------------------------------------------------------------------
// generator

const ACKS: &[u16] = &[0, 1, 511, 512, 1023];
const CTRL_NAMES: &[&str] = &["keepalive", "connect", "connectaccept", "accept", "close"];

/// payload contents from highly compressible to incompressible
pub fn gen_content(rng: &mut Rng, n: usize) -> Vec<u8> {
    match rng.below(7) {
        0 => vec![0u8; n],
        1 => {
            let b = rng.next() as u8;
            vec![b; n]
        }
        2 => {
            // short period
            let p = 1 + rng.below(6) as usize;
            let pat = rng.bytes(p);
            (0..n).map(|i| pat[i % p]).collect()
        }
        3 => {
            // few symbols, biased to small values (frequent in the Huffman table)
            (0..n).map(|_| if rng.chance(3, 4) { 0 } else { rng.below(4) as u8 }).collect()
        }
        4 => (0..n).map(|_| rng.below(16) as u8).collect(),
        5 => {
            // text-like
            (0..n).map(|_| b"etaoin shrdlu\0"[rng.below(14) as usize]).collect()
        }
        _ => rng.bytes(n),
    }
}

fn gen_len(rng: &mut Rng, max: usize) -> usize {
    const B: &[usize] = &[0, 1, 2, 3, 4, 5, 6, 7, 8, 15, 16, 17, 63, 64, 65, 127, 128, 255, 256, 1023, 1024];
    match rng.below(4) {
        0 => (*rng.pick(B)).min(max),
        1 => max - (rng.below(12) as usize).min(max),
        2 => rng.below(40) as usize % (max + 1),
        _ => rng.below(max as u64 + 1) as usize,
    }
}

fn gen_token(rng: &mut Rng) -> Option<Token> {
    match rng.below(8) {
        0..=2 => None,
        3 => Some(TOKEN_NONE),
        4 => Some(TOKEN_RESERVED),
        5 => Some(Token(*b"TKEN")),
        _ => {
            let b = rng.bytes(4);
            Some(Token([b[0], b[1], b[2], b[3]]))
        }
    }
}

/// a well-formed chunk list serialised with the repo's own `write_chunk`
fn gen_chunk_payload(rng: &mut Rng, max: usize) -> (Vec<u8>, u8, Vec<String>) {
    let mut buf: Vec<u8> = Vec::with_capacity(max);
    let mut n = 0u8;
    let mut specs = vec![];
    let k = rng.below(6);
    for _ in 0..k {
        let room = max - buf.len();
        if room < 3 {
            break;
        }
        let len = gen_len(rng, (room - 3).min(1023));
        let d = gen_content(rng, len);
        let vital = if rng.chance(1, 2) { Some((*rng.pick(ACKS), rng.chance(1, 3))) } else { None };
        write_chunk(&d, vital, &mut buf).unwrap();
        specs.push(format!("{}:{}", vital_str(&vital), to_hex(&d)));
        n += 1;
    }
    (buf, n, specs)
}

fn gen_valid_spec(rng: &mut Rng) -> Spec {
    let ack = if rng.chance(3, 4) { *rng.pick(ACKS) } else { rng.below(1024) as u16 };
    let token = gen_token(rng);
    match rng.below(10) {
        0 | 1 => {
            let n = gen_len(rng, MAX_PAYLOAD);
            Spec::Connless(gen_content(rng, n))
        }
        2 | 3 | 4 => {
            let name = *rng.pick(CTRL_NAMES);
            let r = if name == "close" {
                let n = gen_len(rng, CTRLMSG_CLOSE_REASON_LENGTH);
                let mut r = gen_content(rng, n);
                for b in r.iter_mut() {
                    if *b == 0 {
                        *b = 0x41;
                    }
                }
                r
            } else {
                vec![]
            };
            Spec::Ctrl(ack, token, name.to_string(), r)
        }
        5 | 6 => {
            let max = MAX_PACKETSIZE - HEADER_SIZE - if token.is_some() { TOKEN_SIZE } else { 0 };
            let (p, n, _) = gen_chunk_payload(rng, max);
            let nc = if rng.chance(9, 10) { n } else { rng.next() as u8 };
            Spec::Chunks(ack, token, rng.chance(1, 3), nc, p)
        }
        _ => {
            let max = MAX_PACKETSIZE - HEADER_SIZE - if token.is_some() { TOKEN_SIZE } else { 0 };
            let n = gen_len(rng, max);
            Spec::Chunks(ack, token, rng.chance(1, 3), *rng.pick(&[0u8, 1, 2, 255]), gen_content(rng, n))
        }
    }
}

fn write_spec(s: &Spec) -> Option<Vec<u8>> {
    let mut buf = [0u8; 4096];
    let p = spec_packet(s);
    catch(|| p.write(&mut buf[..]).ok().map(|b| b.to_vec())).ok().flatten()
}

const BOUNDARY_BYTES: &[u8] = &[0x00, 0x01, 0x03, 0x04, 0x05, 0x0f, 0x10, 0x20, 0x3f, 0x40, 0x7f, 0x80, 0xc0, 0xf0, 0xfe, 0xff];

fn mutate(rng: &mut Rng, bs: &mut Vec<u8>) {
    match rng.below(8) {
        0 | 1 => {
            if !bs.is_empty() {
                let i = if rng.chance(1, 2) { rng.below(bs.len().min(8) as u64) as usize } else { rng.below(bs.len() as u64) as usize };
                bs[i] ^= 1 << rng.below(8);
            }
        }
        2 | 3 => {
            if !bs.is_empty() {
                let i = if rng.chance(1, 2) { rng.below(bs.len().min(8) as u64) as usize } else { rng.below(bs.len() as u64) as usize };
                bs[i] = *rng.pick(BOUNDARY_BYTES);
            }
        }
        4 => {
            let k = rng.below(bs.len() as u64 + 1) as usize;
            bs.truncate(k);
        }
        5 => {
            let n = 1 + rng.below(8) as usize;
            bs.extend(if rng.chance(1, 2) { vec![0u8; n] } else { rng.bytes(n) });
        }
        6 => {
            if !bs.is_empty() {
                let i = rng.below(bs.len() as u64) as usize;
                bs.remove(i);
            }
        }
        _ => {
            let i = rng.below(bs.len() as u64 + 1) as usize;
            bs.insert(i, *rng.pick(BOUNDARY_BYTES));
        }
    }
}

const HINTS: &[&str] = &["n", "t", "f"];

/// the hand-written byte strings of the crate's own tests (protocol.rs `test_no_token`, `test_token`)
const REPO_TEST_VECTORS: &[&str] = &[
    "00000100f0", "000001402000", "000001401000", "0000014070cf", "000000ff", "000001000000", "0000010000", "000001",
    "0000000000", "000000", "7865010203" , "786501020304", "fffffffffffe", "7fffffffffff", "ffffffffffff", "1000000000",
    "100000040000", "9000001537", "50000000", "1000000401", "10000004", "1000ff00", "080000", "040000", "100000",
    "ffffff", "0000", "-", "1000000512", "10000005", "100000ff", "800000",
    "00000100f012345678", "00000140200012345678", "0000014070cf12345678", "000000ff12345678", "00000112345678",
    "9000 00b93cd2856b53dc00", "1000000412345678", "10000012345678", "00000012", "000000123456",
];

impl Domain for D {
    fn runner(&self) -> Box<dyn Runner> {
        Box::new(R)
    }
    fn gen(&self, tier: &str, seed: u64, out: &mut dyn Write) {
        let mut buf: Vec<u8> = vec![];
        gen_lines(tier, seed, &mut buf);
        // stateless domain: spread the expensive hash-form requests evenly over the shards
        let text = String::from_utf8(buf).unwrap();
        let mut lines: Vec<&str> = text.lines().collect();
        let mut srng = Rng::new(seed ^ 0x5a5a);
        for i in (1..lines.len()).rev() {
            let j = srng.below(i as u64 + 1) as usize;
            lines.swap(i, j);
        }
        for l in lines {
            writeln!(out, "{}", l).unwrap();
        }
    }
}

fn gen_lines(tier: &str, seed: u64, w: &mut Vec<u8>) {
    {
        let mut rng = Rng::new(seed ^ 0x706b7436);
        let thorough = tier == "thorough";
        let scale = if thorough { 10 } else { 1 };

        // ---- header codecs: exhaustive byte patterns / field tuples (hash form) ----
        let step = if thorough { 1 } else { 51 };
        for lo in (0..256).step_by(8) {
            writeln!(w, "hash_ph {} {} {}", lo, lo + 8, step).unwrap();
            writeln!(w, "hash_chv {} {} {}", lo, lo + 8, step).unwrap();
        }
        writeln!(w, "hash_ch").unwrap();
        writeln!(w, "hash_ch_pack").unwrap();
        for f in 0..20 {
            writeln!(w, "hash_ph_pack {} {}", f, f + 1).unwrap();
        }
        writeln!(w, "hash_ph_pack 255 256").unwrap();
        for f in 0..5 {
            // flags >= 4: every tuple panics in pack (assertion); a coarser size step is enough there
            writeln!(w, "hash_chv_pack {} {} {}", f, f + 1, if thorough && f < 4 { 1 } else { 16 }).unwrap();
        }
        for _ in 0..200 * scale {
            let b = rng.bytes(3);
            writeln!(w, "ph {}", to_hex(&b)).unwrap();
            writeln!(w, "ch {}", to_hex(&b[..2])).unwrap();
            writeln!(w, "chv {}", to_hex(&b)).unwrap();
            writeln!(w, "ph_pack {} {} {}", rng.below(18), *rng.pick(&[0u32, 1, 511, 512, 1023, 1024, 65535]), rng.below(256)).unwrap();
            writeln!(w, "ch_pack {} {}", rng.below(5), *rng.pick(&[0u32, 1, 15, 16, 48, 1023, 1024, 4095, 4096, 65535])).unwrap();
            writeln!(w, "chv_pack {} {} {}", rng.below(5), rng.below(1030), *rng.pick(&[0u32, 1, 255, 256, 1023, 1024, 65535])).unwrap();
        }

        // ---- the repository's own test vectors, every hint ----
        for v in REPO_TEST_VECTORS {
            let v: String = v.chars().filter(|c| !c.is_whitespace()).collect();
            for h in HINTS {
                writeln!(w, "read {} 1400 {}", h, v).unwrap();
                writeln!(w, "read {} 4096 {}", h, v).unwrap();
            }
            writeln!(w, "init {}", v).unwrap();
            writeln!(w, "din 1400 {}", v).unwrap();
        }

        // ---- all short datagrams × hint (hash form) ----
        for h in HINTS {
            writeln!(w, "read {} 1400 -", h).unwrap();
            writeln!(w, "hash_read {} 1400 - 0 256 0 -", h).unwrap();
            for lo in (0..256).step_by(32) {
                writeln!(w, "hash_read {} 1400 - {} {} 1 -", h, lo, lo + 32).unwrap();
            }
            if thorough {
                // all three-byte datagrams (the drivers evaluate the reader with the proven-equal
                // `decompressFast`, so the headers that make it decompress an empty stream are affordable)
                for b0 in 0..256u32 {
                    writeln!(w, "hash_read {} 1400 - {} {} 2 -", h, b0, b0 + 1).unwrap();
                }
            } else {
                // all packet-header first bytes × ack byte ∈ boundary × all num_chunks
                for b0 in (0..256).step_by(1) {
                    if rng.chance(1, 8) {
                        writeln!(w, "hash_read {} 1400 {:02x}{:02x} 0 256 0 -", h, b0, *rng.pick(BOUNDARY_BYTES)).unwrap();
                    }
                }
            }
        }
        // the 4-byte close payload ambiguity of has_token_heuristic: `04 a b c d` for all a b c,
        // d ∈ {0, 1}: UTF-8 validity of a b c decides
        for lo in (0..256).step_by(if thorough { 4 } else { 64 }) {
            let hi = if thorough { lo + 4 } else { lo + 1 };
            writeln!(w, "hash_read n 1400 10000004 {} {} 2 00", lo, hi).unwrap();
            if thorough {
                writeln!(w, "hash_read n 1400 10000004 {} {} 2 01", lo, hi).unwrap();
            }
        }
        for b in [0x00u32, 0x41, 0x7f, 0x80, 0xbf, 0xc0, 0xc1, 0xc2, 0xdf, 0xe0, 0xe1, 0xec, 0xed, 0xee, 0xef, 0xf0, 0xf4, 0xf5, 0xff] {
            writeln!(w, "hash_read n 1400 10000004 {} {} 2 00", b, b + 1).unwrap();
        }
        // connect / connectaccept with every 1-byte deviation of the token magic
        for c in [1u8, 2] {
            for hint in ["n", "t"] {
                let magic = b"TKEN";
                for i in 0..4 {
                    writeln!(w, "hash_read {} 1400 100000{:02x}{} 0 256 0 {}12345678", hint, c, if i == 0 { "".to_string() } else { to_hex(&magic[..i]) },
                        if i == 3 { "".to_string() } else { to_hex(&magic[i + 1..]) }).unwrap();
                }
            }
        }

        // ---- C05: valid packets of every kind, written and read back ----
        for _ in 0..1500 * scale {
            let s = gen_valid_spec(&mut rng);
            let cap = *rng.pick(&[1400usize, 1400, 2048, 4096]);
            writeln!(w, "write {} {}", cap, spec_str(&s)).unwrap();
            if let Some(bytes) = write_spec(&s) {
                let hint = if spec_has_token(&s) { "t" } else { "f" };
                writeln!(w, "read {} {} {}", hint, *rng.pick(&[1400usize, 2048, 4096]), to_hex(&bytes)).unwrap();
                if rng.chance(1, 3) {
                    writeln!(w, "read n 1400 {}", to_hex(&bytes)).unwrap();
                    writeln!(w, "readp {} {}", hint, to_hex(&bytes)).unwrap();
                    writeln!(w, "din {} {}", *rng.pick(&[1400usize, 2048]), to_hex(&bytes)).unwrap();
                    writeln!(w, "init {}", to_hex(&bytes)).unwrap();
                }
            }
        }
        // every kind × token × boundary ack × boundary lengths, compressible and not
        for &ack in ACKS {
            for tok in [None, Some(Token([0x12, 0x34, 0x56, 0x78]))] {
                for name in CTRL_NAMES {
                    let r = if *name == "close" { b"bye".to_vec() } else { vec![] };
                    writeln!(w, "write 1400 {}", spec_str(&Spec::Ctrl(ack, tok, name.to_string(), r))).unwrap();
                }
                let tl = if tok.is_some() { 4 } else { 0 };
                for len in [0usize, 1, 2, 3, 4, 5, 6, 7, 8, 9, 16, 100, 1385, 1386, 1389, 1390, 1393 - tl, 1396 - tl, 1397 - tl] {
                    for kind in 0..3 {
                        let d = match kind {
                            0 => vec![0u8; len],
                            1 => gen_content(&mut rng, len),
                            _ => rng.bytes(len),
                        };
                        writeln!(w, "write 1400 {}", spec_str(&Spec::Chunks(ack, tok, kind == 1, (len % 3) as u8, d))).unwrap();
                    }
                }
            }
        }
        for len in [0usize, 1, 2, 1389, 1390] {
            writeln!(w, "write 1400 connless {}", to_hex(&gen_content(&mut rng, len))).unwrap();
            writeln!(w, "write 1400 connless {}", to_hex(&vec![0xffu8; len])).unwrap();
        }
        // reasons of every length up to the limit
        for len in 0..=CTRLMSG_CLOSE_REASON_LENGTH {
            if thorough || len < 8 || len > 120 || len % 16 == 0 {
                let r: Vec<u8> = (0..len).map(|i| 1 + ((i * 7) % 255) as u8).collect();
                writeln!(w, "write 1400 {}", spec_str(&Spec::Ctrl(5, if len % 2 == 0 { None } else { Some(Token([1, 2, 3, 4])) }, "close".to_string(), r))).unwrap();
            }
        }

// the compression decision boundary: payloads whose compressed form is exactly as long as,
// one byte shorter or one byte longer than the payload ("compressed iff strictly shorter")
for kind in 0..6u64 {
    let mut found = 0;
    for n in 1..400usize {
        let mut r2 = Rng::new(seed ^ (kind << 32) ^ n as u64);
        let d: Vec<u8> = match kind {
            0 => (0..n).map(|_| r2.below(16) as u8).collect(),
            1 => (0..n).map(|_| r2.below(8) as u8 * 3).collect(),
            2 => (0..n).map(|_| if r2.chance(1, 2) { 0 } else { r2.next() as u8 }).collect(),
            3 => (0..n).map(|_| b"etaoin shrdlu\0"[r2.below(14) as usize]).collect(),
            4 => (0..n).map(|_| if r2.chance(1, 3) { 0 } else { r2.below(32) as u8 }).collect(),
            _ => (0..n).map(|i| if i % 3 == 0 { r2.next() as u8 } else { 0 }).collect(),
        };
        let cl = HUFFMAN.compressed_len(&d);
        if cl + 1 >= d.len() && cl <= d.len() + 1 && found < 12 {
            found += 1;
            writeln!(w, "write 1400 {}", spec_str(&Spec::Chunks(7, None, false, 1, d.clone()))).unwrap();
        }
    }
}
        // ---- outside `Valid`: refusals, panics, silent truncation; small buffers ----
        for _ in 0..150 * scale {
            let mut s = gen_valid_spec(&mut rng);
            match rng.below(6) {
                0 => match &mut s {
                    Spec::Chunks(a, ..) | Spec::Ctrl(a, ..) => *a = *rng.pick(&[1024u16, 1025, 2047, 2048, 32768, 65535]),
                    _ => {}
                },
                1 => {
                    let n = *rng.pick(&[1391usize, 1392, 1394, 1395, 1397, 1398, 1400, 2043, 2044, 2045, 2048, 2049, 3000]);
                    s = if rng.chance(1, 3) {
                        Spec::Connless(gen_content(&mut rng, n))
                    } else {
                        Spec::Chunks(1, gen_token(&mut rng), false, 1, gen_content(&mut rng, n))
                    };
                }
                2 => {
                    let n = *rng.pick(&[1usize, 5, 127, 128, 129, 200, 1389, 1394, 1395, 1396, 1400]);
                    let mut r = gen_content(&mut rng, n);
                    if rng.chance(1, 2) {
                        for b in r.iter_mut() {
                            if *b == 0 {
                                *b = 0x42;
                            }
                        }
                    }
                    s = Spec::Ctrl(3, gen_token(&mut rng), "close".to_string(), r);
                }
                _ => {}
            }
            let need = write_spec(&s).map(|b| b.len()).unwrap_or(8);
            let cap = match rng.below(5) {
                0 => need.saturating_sub(1),
                1 => need,
                2 => rng.below(need as u64 + 1) as usize,
                3 => 4096,
                _ => *rng.pick(&[0usize, 1, 2, 3, 4, 6, 7]),
            };
            writeln!(w, "write {} {}", cap, spec_str(&s)).unwrap();
        }

        // ---- chunk lists ↔ iterator ----
        for _ in 0..300 * scale {
            let (p, n, specs) = gen_chunk_payload(&mut rng, 1397);
            writeln!(w, "wchunks {} {}", *rng.pick(&[p.len(), p.len() + 1, 1400, p.len().saturating_sub(1)]), specs.join(" ")).unwrap();
            writeln!(w, "iter {} {}", n, to_hex(&p)).unwrap();
        }
        for &q in &[0u16, 1, 63, 64, 255, 256, 511, 512, 1023, 1024] {
            for &len in &[0usize, 1, 15, 16, 17, 63, 64, 1023, 1024] {
                let d = vec![0x55u8; len];
                writeln!(w, "wchunks 2000 {}.{}:{} n:{}", q, len % 2, to_hex(&d), to_hex(&d)).unwrap();
            }
        }
        // every chunk size once (vital and not)
        for len in 0..1024usize {
            if thorough || len % 16 < 2 || len > 1000 {
                let d: Vec<u8> = (0..len).map(|i| i as u8).collect();
                writeln!(w, "wchunks 1100 {}:{}", if len % 2 == 0 { "n".to_string() } else { format!("{}.0", len) }, to_hex(&d)).unwrap();
            }
        }

        // ---- C06: corrupted / truncated / hostile datagrams ----
        for _ in 0..2500 * scale {
            let s = gen_valid_spec(&mut rng);
            let mut bytes = match write_spec(&s) {
                Some(b) => b,
                None => continue,
            };
            let k = 1 + rng.below(2);
            for _ in 0..k {
                mutate(&mut rng, &mut bytes);
            }
            let hint = *rng.pick(HINTS);
            let cap = *rng.pick(&[1400usize, 1400, 1400, 2048, 4096]);
            writeln!(w, "read {} {} {}", hint, cap, to_hex(&bytes)).unwrap();
            match rng.below(8) {
                0 => writeln!(w, "readp {} {}", hint, to_hex(&bytes)).unwrap(),
                1 => writeln!(w, "din {} {}", cap, to_hex(&bytes)).unwrap(),
                2 => writeln!(w, "init {}", to_hex(&bytes)).unwrap(),
                3 => writeln!(w, "iter {} {}", rng.below(4), to_hex(&bytes[bytes.len().min(3)..])).unwrap(),
                _ => {}
            }
        }
        // truncation at every position of a few packets
        for _ in 0..6 * scale {
            let s = gen_valid_spec(&mut rng);
            if let Some(bytes) = write_spec(&s) {
                if bytes.len() <= 80 || thorough {
                    for k in 0..bytes.len() {
                        writeln!(w, "read {} 1400 {}", *rng.pick(HINTS), to_hex(&bytes[..k])).unwrap();
                    }
                }
            }
        }
        // compressed payloads: expanding beyond a packet, truncated streams, garbage streams
        for _ in 0..250 * scale {
            let n = *rng.pick(&[0usize, 1, 5, 100, 1000, 1390, 1393, 1396, 1397, 1398, 1399, 1400, 1401, 2000, 2045, 3000, 4093, 4094, 5000]);
            let d = gen_content(&mut rng, n);
            let mut comp = HUFFMAN.compress_into_vec(&d);
            match rng.below(5) {
                0 => {
                    let k = rng.below(comp.len() as u64 + 1) as usize;
                    comp.truncate(k);
                }
                1 => {
                    if !comp.is_empty() {
                        let i = rng.below(comp.len() as u64) as usize;
                        comp[i] ^= 1 << rng.below(8);
                    }
                }
                _ => {}
            }
            comp.truncate(1397 + rng.below(3) as usize);
            let flags: u8 = 0x80 | *rng.pick(&[0x00u8, 0x00, 0x10, 0x40, 0x50]);
            let mut bytes = vec![flags | rng.below(4) as u8, rng.next() as u8, rng.below(3) as u8];
            bytes.extend(&comp);
            let cap = *rng.pick(&[1400usize, 1400, 2048, 4096, 8192]);
            let hint = *rng.pick(HINTS);
            writeln!(w, "read {} {} {}", hint, cap, to_hex(&bytes)).unwrap();
            if rng.chance(1, 3) {
                writeln!(w, "din {} {}", cap, to_hex(&bytes)).unwrap();
                writeln!(w, "readp {} {}", hint, to_hex(&bytes)).unwrap();
            }
        }
        for _ in 0..60 * scale {
            // random Huffman streams (decode to something of random length)
            let n = rng.below(400) as usize;
            let mut bytes = vec![0x80 | (rng.below(2) as u8) << 4, 0, rng.below(3) as u8];
            bytes.extend(rng.bytes(n));
            writeln!(w, "read {} {} {}", *rng.pick(HINTS), *rng.pick(&[1400usize, 4096]), to_hex(&bytes)).unwrap();
        }
        // random datagrams, lengths 0..3000
        for _ in 0..300 * scale {
            let n = match rng.below(4) {
                0 => rng.below(12) as usize,
                1 => rng.below(200) as usize,
                2 => 1390 + rng.below(20) as usize,
                _ => rng.below(3001) as usize,
            };
            let mut bytes = rng.bytes(n);
            if n > 0 && rng.chance(2, 3) {
                // make the header plausible: clear padding bits, pick flags
                bytes[0] = (*rng.pick(&[0x00u8, 0x10, 0x20, 0x40, 0x80, 0x90, 0x50]) | (bytes[0] & 3)) & !0x0c;
            }
            let hint = *rng.pick(HINTS);
            writeln!(w, "read {} {} {}", hint, *rng.pick(&[1400usize, 2048]), to_hex(&bytes)).unwrap();
            if rng.chance(1, 4) {
                writeln!(w, "init {}", to_hex(&bytes)).unwrap();
                writeln!(w, "din 1400 {}", to_hex(&bytes)).unwrap();
                writeln!(w, "iter {} {}", rng.below(5), to_hex(&bytes[..n.min(64)])).unwrap();
            }
        }
        // ---- deterministic cases for realistic breaking edits (quick tier must reach them) ----
        // compressible chunk packets WITH token (token appended before compression)
        for n in [8usize, 50, 200, 1000, 1393] {
            for d in [vec![0u8; n], (0..n).map(|i| (i % 3) as u8).collect::<Vec<u8>>()] {
                let s = Spec::Chunks(513, Some(Token([0x12, 0x34, 0x56, 0x78])), n % 2 == 0, 1, d);
                writeln!(w, "write 1400 {}", spec_str(&s)).unwrap();
                if let Some(bytes) = write_spec(&s) {
                    for cap in [1400usize, 2048, 4096] {
                        writeln!(w, "read t {} {}", cap, to_hex(&bytes)).unwrap();
                    }
                }
            }
        }
        // compressed payloads expanding past MAX_PACKETSIZE - HEADER_SIZE, scratch buffers as the callers
        // use them (2048, 4096), with and without a token hint
        for n in [1396usize, 1397, 1398, 1399, 1401, 1500, 2000, 2044, 2045, 2046, 4090, 4093, 4094, 5000] {
            for d in [vec![0u8; n], (0..n).map(|i| (i % 2) as u8).collect::<Vec<u8>>()] {
                let mut bytes = vec![0x80u8, 0x00, 0x01];
                bytes.extend(HUFFMAN.compress_into_vec(&d));
                if bytes.len() <= MAX_PACKETSIZE {
                    for cap in [1400usize, 2048, 4096] {
                        writeln!(w, "read f {} {}", cap, to_hex(&bytes)).unwrap();
                        writeln!(w, "read t {} {}", cap, to_hex(&bytes)).unwrap();
                    }
                    writeln!(w, "din 2048 {}", to_hex(&bytes)).unwrap();
                }
            }
        }
        // payload + token around the 2048-byte ArrayVec of ConnectedPacket::write (silent truncation)
        for n in [2040usize, 2043, 2044, 2045, 2047, 2048, 2049, 3000] {
            for tok in [None, Some(Token([0xaa, 0xbb, 0xcc, 0xdd]))] {
                let d: Vec<u8> = (0..n).map(|i| (i * 7 + 1) as u8).collect();
                writeln!(w, "write 4096 {}", spec_str(&Spec::Chunks(2, tok, false, 1, d))).unwrap();
                writeln!(w, "write 4096 {}", spec_str(&Spec::Chunks(2, tok, false, 1, vec![0u8; n]))).unwrap();
            }
        }
        // acks and sequence numbers >= 256 through whole packets
        for ack in [255u16, 256, 257, 511, 512, 767, 768, 1023] {
            let mut buf: Vec<u8> = Vec::with_capacity(64);
            write_chunk(b"ab", Some((ack, ack % 2 == 0)), &mut buf).unwrap();
            write_chunk(b"", Some((1023 - ack, false)), &mut buf).unwrap();
            let s = Spec::Chunks(ack, None, false, 2, buf.clone());
            writeln!(w, "write 1400 {}", spec_str(&s)).unwrap();
            if let Some(bytes) = write_spec(&s) {
                writeln!(w, "read f 1400 {}", to_hex(&bytes)).unwrap();
            }
            writeln!(w, "wchunks 64 {}.1:6162 {}.0:-", ack, 1023 - ack).unwrap();
        }
        // validly compressed datagrams of every packet kind (the writer only compresses chunk packets, a
        // peer may compress anything): header with the compression flag + compress(body [+ token]);
        // exercised through read, read_panic_on_decompression, decompress_if_needed and the two-step path
        for tok in [None, Some(Token([0x12, 0x34, 0x56, 0x78]))] {
            let mut bodies: Vec<(u8, Vec<u8>)> = vec![
                (0x10, vec![0]),
                (0x10, if tok.is_some() { b"\x01TKEN".to_vec() } else { vec![1] }),
                (0x10, if tok.is_some() { b"\x02TKEN".to_vec() } else { vec![2] }),
                (0x10, vec![3]),
                (0x10, b"\x04bye\0".to_vec()),
                (0x10, vec![4]),
                (0x10, vec![9]),
                (0x00, vec![]),
                (0x40, vec![0x00, 0x20, 1, 2]),
                (0x00, vec![0x40, 0x70, 0xcf]),
            ];
            let (p, _, _) = gen_chunk_payload(&mut rng, 600);
            bodies.push((0x00, p));
            bodies.push((0x00, vec![0u8; 1393]));
            bodies.push((0x20, b"\xff\xff\xffinfo".to_vec()));
            for (flags, body) in bodies {
                let mut plain = body.clone();
                if let Some(t) = tok {
                    plain.extend_from_slice(&t.0);
                }
                let mut bytes = vec![0x80u8 | flags | 0x02, 0x01, if flags == 0 { 1 } else { 0 }];
                bytes.extend(HUFFMAN.compress_into_vec(&plain));
                let hint = if tok.is_some() { "t" } else { "f" };
                for h in [hint, "n"] {
                    writeln!(w, "read {} 1400 {}", h, to_hex(&bytes)).unwrap();
                    writeln!(w, "read {} 2048 {}", h, to_hex(&bytes)).unwrap();
                    writeln!(w, "readp {} {}", h, to_hex(&bytes)).unwrap();
                }
                writeln!(w, "din 1400 {}", to_hex(&bytes)).unwrap();
                writeln!(w, "din 2048 {}", to_hex(&bytes)).unwrap();
                writeln!(w, "init {}", to_hex(&bytes)).unwrap();
            }
        }
        // D17 band: connless datagrams around the writer's limit
        for n in 1385..=1401usize {
            let mut bytes = vec![0xffu8; 6];
            bytes.extend(gen_content(&mut rng, n));
            writeln!(w, "read {} 1400 {}", *rng.pick(HINTS), to_hex(&bytes)).unwrap();
        }
        // documented preconditions violated: both sides must panic
        for cap in [0usize, 1, 1399] {
            writeln!(w, "read n {} 100000", cap).unwrap();
            writeln!(w, "din {} 100000", cap).unwrap();
        }
        writeln!(w, "readp n 800000").unwrap();
    }
}
