// Build script of the harness (added by the `net` domain; it edits no shared file).
// Sets `--cfg net_peer_id_hook` when the repository under test provides the verification hook
// `Net::verif_set_next_peer_id` (feature `libtw2_verif` of libtw2-net), so that the harness still
// builds — without the `nextid` request of domain `net` — against a checkout that lacks it.
use std::fs;
use std::path::Path;

fn main() {
    println!("cargo:rustc-check-cfg=cfg(net_peer_id_hook)");
    println!("cargo:rerun-if-changed=Cargo.toml");
    let dir = std::env::var("CARGO_MANIFEST_DIR").unwrap_or_default();
    let toml = fs::read_to_string(Path::new(&dir).join("Cargo.toml")).unwrap_or_default();
    for line in toml.lines() {
        if line.starts_with("libtw2-net ") || line.starts_with("libtw2-net=") {
            if let Some(i) = line.find("path = \"") {
                let rest = &line[i + 8..];
                if let Some(j) = rest.find('"') {
                    let src = Path::new(&rest[..j]).join("src").join("net.rs");
                    println!("cargo:rerun-if-changed={}", src.display());
                    if fs::read_to_string(&src).map(|s| s.contains("fn verif_set_next_peer_id")).unwrap_or(false) {
                        println!("cargo:rustc-cfg=net_peer_id_hook");
                    }
                }
            }
        }
    }
}
